"""Job tables: which engine runs, with which bounds, decide which property.

A job is one engine process. `classes` lists the violation classes of that
engine that bear on the property (None = all of them).
"""

CHECKS = {"bin": "bs", "profile": "release"}


def B(binname, profile="release"):
    return {"bin": binname, "profile": profile}


RESULT = ["wrong_result", "raw_form", "panic"]
MEMORY = ["oob_load", "misaligned_load", "crash"]


def bs(mode, ops, classes, name=None, extra=None, tiers=("quick", "thorough")):
    return {
        "name": name or "bs/%s/%s" % (mode, ops),
        "build": B("bs"),
        "args": [mode, "--tier", "{tier}", "--ops", ops] + (extra or []),
        "classes": classes,
        "tiers": tiers,
    }


ASSUME_COMMON = [
    "reference model: iter().position / rposition / filter().count() over the placed slice (mcore::oracle)",
    "the scaled-down vector VN<N> (hook H1, src/vector.rs) implements the Vector trait faithfully; it shares SensibleMoveMask with SSE2/AVX2/simd128",
    "host CPU has SSE2 and AVX2; 64-bit little-endian only (32-bit SWAR and big-endian mask swapping are not reachable on this host)",
]

PROPERTIES = {
    "C01": {
        "rule": "a shape is (needle bytes, haystack bytes, start offset in the arena, placement); all shapes of a job are distinct by construction (enumerated, never sampled)",
        "explanation": "Bounded-exhaustive exploration of the real forward byte-search code: generic One/Two/Three at VN<2,4,8,16,32> (every haystack over the role alphabet up to the length bound at every start offset), and the real SWAR/SSE2/AVX2/top-level code on the same spaces plus sparse/dense families at real vector widths; every execution compared with the naive reference; raw forms checked for pointer range and agreement with the slice form.",
        "assumptions": ASSUME_COMMON,
        "jobs": [
            bs("full", "find", RESULT),
            bs("values", "find", RESULT),
            bs("sparse", "find", RESULT),
            bs("raw-edges", "find", RESULT),
        ],
    },
    "C02": {
        "rule": "as C01; because every start offset 0..64 is enumerated for every length, every END alignment mod 64 occurs for every length",
        "explanation": "Same spaces as C01 through rfind / rfind_raw / memrchr*: the reverse scan aligns on the end pointer; (length, start offset) pairs cover every end alignment; matches that live only in the final re-check at the start of the haystack are members of the Full spaces.",
        "assumptions": ASSUME_COMMON,
        "jobs": [
            bs("full", "rfind", RESULT),
            bs("values", "rfind", RESULT),
            bs("sparse", "rfind", RESULT),
            bs("raw-edges", "rfind", RESULT),
        ],
    },
}



def ss(mode, subjects, classes, name, extra=None, tiers=("quick", "thorough"), profile="release", q=None, t=None):
    """q / t: extra args for the quick / thorough tier only."""
    job = {
        "name": name,
        "build": B("ss", profile),
        "args": [mode, "--tier", "{tier}"] + (["--subjects", subjects] if subjects else []) + (extra or []),
        "classes": classes,
        "tiers": tiers,
    }
    if q is not None or t is not None:
        job["tier_args"] = {"quick": q or [], "thorough": t or []}
    return job


FWD = "memmem,finder,finder-nopre,iter-first,finder-owned,finder-asref"
REV = "rmemmem,rfinder,riter-first,rfinder-owned"
BLOCKS = "twoway,rk,shiftor,pp-sse2,pp-avx2,pp-vn2,pp-vn4,pp-vn8,rtwoway,rrk"
PF = "pf-sse2,pf-avx2,pf-portable,pf-vn2,pf-vn4,pf-vn8"
PPS = "pp-sse2,pp-avx2,pp-vn8,pp-vn16"
PFS = "pf-sse2,pf-avx2,pf-portable,pf-vn8,pf-vn16"


def e_spaces(subjects, classes, tag, places=None):
    pl = ["--places", places] if places else []
    return [
        ss("e", subjects, classes, "ss/E2/" + tag, ["--letters", "ab"] + pl, q=["--nmax", "7", "--hmax", "15"], t=["--nmax", "8", "--hmax", "17"]),
        ss("e", subjects, classes, "ss/E3/" + tag, ["--letters", "abc"] + pl, q=["--nmax", "4", "--hmax", "10"], t=["--nmax", "5", "--hmax", "11"]),
        ss("e", subjects, classes, "ss/C64/" + tag, ["--letters", "c64"] + pl, q=["--nmax", "4", "--hmax", "9"], t=["--nmax", "5", "--hmax", "10"]),
        ss("e", subjects, classes, "ss/RK/" + tag, ["--letters", "rk"] + pl, q=["--nmax", "4", "--hmax", "9"], t=["--nmax", "5", "--hmax", "10"]),
    ]


ASSUME_SUB = [
    "reference model: windows().position / rposition with the empty-needle conventions (mcore::oracle)",
    "host CPU has SSE2 and AVX2, so Finder takes the AVX2 packed-pair / Two-Way+AVX2-prefilter strategies in this configuration (other dispatcher outcomes: C09)",
    "the scaled-down vector VN<N> (hook H1) implements the Vector trait faithfully",
]

PROPERTIES.update({
    "C03": {
        "rule": "a shape is (needle, haystack, placement); enumerated spaces: E2/E3 (all needles x all haystacks over 2/3 letters), C64 (bytes equal mod 64), RK (bytes 0,1,2: Rabin-Karp hash collisions), E2pad (cores x pad grid: both sides of the vector minimum), LN (long structured needles x every concatenation of their own factors x pad grid)",
        "explanation": "Bounded-exhaustive exploration of memmem::find, Finder::find (auto and no prefilter), find_iter().next(), the owned and as_ref forms, against the naive leftmost-occurrence model, over spaces that reach every strategy of the meta searcher (the per-strategy execution histogram is in the evidence).",
        "assumptions": ASSUME_SUB,
        "jobs": e_spaces(FWD, RESULT, "fwd") + [
            ss("epad", FWD, RESULT, "ss/E2pad/fwd", q=["--nmax", "3", "--hmax", "9"], t=["--nmax", "4", "--hmax", "12"]),
            ss("ln", FWD, RESULT, "ss/LN/fwd"),
        ],
    },
    "C04": {
        "rule": "as C03, reverse subjects",
        "explanation": "Same spaces as C03 through memmem::rfind, FinderRev::rfind, rfind_iter().next() and the owned form, against the naive rightmost-occurrence model (empty needle -> haystack.len()). The LN family contains every needle reversed-periodic shape (u^k, c u^k, u^k c, reversed Fibonacci).",
        "assumptions": ASSUME_SUB,
        "jobs": e_spaces(REV, RESULT, "rev") + [
            ss("epad", REV, RESULT, "ss/E2pad/rev", q=["--nmax", "3", "--hmax", "9"], t=["--nmax", "4", "--hmax", "12"]),
            ss("ln", REV, RESULT, "ss/LN/rev"),
        ],
    },
    "C11": {
        "rule": "a shape is (needle, index pair, haystack, placement)",
        "explanation": "Every public packed-pair prefilter (SSE2, AVX2, portable, and the generic code at VN<2,4,8,16>) over (a) all needles over a small alphabet x ALL valid index pairs x all binary haystacks of every length from min_haystack_len up, (b) long needles x far-apart/reversed pairs x pad grids with planted partial pair hits and false candidates, (c) the E-spaces with the default pair, (d) the private short-haystack fallback through Finder::find on LN. Oracle: candidate <= first occurrence, None only if no occurrence, pair bytes present at the candidate.",
        "assumptions": ASSUME_SUB,
        "jobs": [
            ss("pp-pairs", None, RESULT, "ss/pp-pairs"),
            ss("pp-real", PFS, RESULT, "ss/pp-real/prefilter"),
        ] + e_spaces(PF, RESULT, "prefilter")[:2] + [
            ss("epad", PF, RESULT, "ss/E2pad/prefilter", q=["--nmax", "3", "--hmax", "9"], t=["--nmax", "4", "--hmax", "12"]),
            ss("ln", PF + ",finder", RESULT, "ss/LN/prefilter+fallback"),
        ],
    },
    "C12": {
        "rule": "a shape is (needle, [index pair,] haystack, placement)",
        "explanation": "Each public building block (Two-Way fwd/rev, Rabin-Karp fwd/rev, Shift-Or, SSE2/AVX2/VN packed-pair find) against the naive model over E2/E3/C64/RK/LN and the pair spaces; constructors must return None exactly outside their domain (Shift-Or > 15 bytes, packed pair < 2 bytes).",
        "assumptions": ASSUME_SUB,
        "jobs": e_spaces(BLOCKS, RESULT, "blocks") + [
            ss("ln", BLOCKS, RESULT, "ss/LN/blocks"),
            ss("pp-pairs", None, RESULT, "ss/pp-pairs"),
            ss("pp-real", PPS, RESULT, "ss/pp-real/find"),
            ss("epad", "pp-sse2,pp-avx2,twoway,rk,rtwoway,rrk", RESULT, "ss/E2pad/blocks", q=["--nmax", "3", "--hmax", "9"], t=["--nmax", "4", "--hmax", "12"]),
        ],
    },
    "C18": {
        "rule": "a shape is (x, y, alignment of x, alignment of y, placement)",
        "explanation": "is_equal / is_prefix / is_suffix / is_equal_raw against ==, starts_with, ends_with: all pairs over {a,b} up to 7 (8) bytes; for every length 0..=64 (80) equal content and every single-byte difference at every position with three deltas, at all 8x8 relative alignments, and with both operands flush against PROT_NONE pages; unequal lengths.",
        "assumptions": ["reference model: slice ==, starts_with, ends_with", "an over-read next to a guard page kills the engine process, which the driver reports as a violation"],
        "jobs": [ss("equal", None, RESULT + ["crash"], "ss/equal")],
    },
    "C19": {
        "rule": "a case is (needle, ranker behaviour) or (needle length, index1, index2)",
        "explanation": "Pair::new / with_ranker for every needle over <=3 letters up to length 8 (10) under EVERY weak order of the letters' ranks (pair selection only compares ranks, so this exhausts ranker behaviours on those needles), for structured needles of length 2..600 under 11 named rankers (constant, identity, reversed, adversarial, permutations); Pair::with_indices for every (i1,i2) in 0..=255 squared on 10 needle lengths; every finder built from an accepted pair must echo it and report min_haystack_len = max(len, max index + V).",
        "assumptions": ["the stated contract (None iff len < 2; distinct offsets inside the needle and <= 254)"],
        "jobs": [ss("pairs", None, RESULT, "ss/pairs")],
    },
})

HOOK_COMMITS = ["ffdf165", "556bbde"]

ENGINES = [
    {"name": "bs", "path": "/verif/harness/checks/src/bin/bs.rs", "serves_properties": ["C01", "C02", "C05", "C07", "C14"],
     "kind_free_text": "shape-space exploration of byte search: all role strings x all start offsets x subjects {VN<2..32>, SWAR, SSE2, AVX2, top-level}, naive reference model, checked-load monitor"},
    {"name": "ss", "path": "/verif/harness/checks/src/bin/ss/", "serves_properties": ["C03", "C04", "C05", "C10", "C11", "C12", "C14", "C17", "C18", "C19"],
     "kind_free_text": "shape-space exploration of substring search and its building blocks: enumerated needle x haystack spaces, naive reference model, allocation probe, guard-page placement"},
]

NOT_CLAIMED = {}

NOTES = "All checks are bounded-exhaustive explorations of executions of the real code (no sampling decides a verdict). bin/check exits 2 for machinery failures."
