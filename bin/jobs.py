"""Job tables: which engine runs, with which bounds, decide which property.

A job is one engine process. `classes` lists the violation classes of that
engine that bear on the property (None = all of them).
"""

CHECKS = {"bin": "bs", "profile": "release"}


def B(binname, profile="release"):
    return {"bin": binname, "profile": profile}


RESULT = ["wrong_result", "raw_form", "panic"]
MEMORY = ["oob_load", "misaligned_load", "crash"]


def bs(mode, ops, classes, name=None, extra=None, tiers=("quick", "thorough")):
    return {
        "name": name or "bs/%s/%s" % (mode, ops),
        "build": B("bs"),
        "args": [mode, "--tier", "{tier}", "--ops", ops] + (extra or []),
        "classes": classes,
        "tiers": tiers,
    }


ASSUME_COMMON = [
    "reference model: iter().position / rposition / filter().count() over the placed slice (mcore::oracle)",
    "the scaled-down vector VN<N> (hook H1, src/vector.rs) implements the Vector trait faithfully; it shares SensibleMoveMask with SSE2/AVX2/simd128",
    "host CPU has SSE2 and AVX2; 64-bit little-endian only (32-bit SWAR and big-endian mask swapping are not reachable on this host)",
]

PROPERTIES = {
    "C01": {
        "rule": "a shape is (needle bytes, haystack bytes, start offset in the arena, placement); all shapes of a job are distinct by construction (enumerated, never sampled)",
        "explanation": "Bounded-exhaustive exploration of the real forward byte-search code: generic One/Two/Three at VN<2,4,8,16,32> (every haystack over the role alphabet up to the length bound at every start offset), and the real SWAR/SSE2/AVX2/top-level code on the same spaces plus sparse/dense families at real vector widths; every execution compared with the naive reference; raw forms checked for pointer range and agreement with the slice form.",
        "assumptions": ASSUME_COMMON,
        "jobs": [
            bs("full", "find", RESULT),
            bs("values", "find", RESULT),
            bs("sparse", "find", RESULT),
            bs("raw-edges", "find", RESULT),
        ],
    },
    "C02": {
        "rule": "as C01; because every start offset 0..64 is enumerated for every length, every END alignment mod 64 occurs for every length",
        "explanation": "Same spaces as C01 through rfind / rfind_raw / memrchr*: the reverse scan aligns on the end pointer; (length, start offset) pairs cover every end alignment; matches that live only in the final re-check at the start of the haystack are members of the Full spaces.",
        "assumptions": ASSUME_COMMON,
        "jobs": [
            bs("full", "rfind", RESULT),
            bs("values", "rfind", RESULT),
            bs("sparse", "rfind", RESULT),
            bs("raw-edges", "rfind", RESULT),
        ],
    },
}

HOOK_COMMITS = ["ffdf165", "556bbde"]

ENGINES = [
    {"name": "bs", "path": "/verif/harness/checks/src/bin/bs.rs", "serves_properties": ["C01", "C02"],
     "kind_free_text": "shape-space exploration of byte search: all role strings x all start offsets x subjects {VN<2..32>, SWAR, SSE2, AVX2, top-level}, naive reference model, checked-load monitor"},
]

NOT_CLAIMED = {}

NOTES = "All checks are bounded-exhaustive explorations of executions of the real code (no sampling decides a verdict). bin/check exits 2 for machinery failures."
