"""Job tables: which engine runs, with which bounds, decide which property.

A job is one engine process. `classes` lists the violation classes of that
engine that bear on the property (None = all of them).
"""

CHECKS = {"bin": "bs", "profile": "release"}


def B(binname, profile="release"):
    return {"bin": binname, "profile": profile}


RESULT = ["wrong_result", "raw_form", "panic"]
MEMORY = ["oob_load", "misaligned_load", "crash"]


def bs(mode, ops, classes, name=None, extra=None, tiers=("quick", "thorough")):
    return {
        "name": name or "bs/%s/%s" % (mode, ops),
        "build": B("bs"),
        "args": [mode, "--tier", "{tier}", "--ops", ops] + (extra or []),
        "classes": classes,
        "tiers": tiers,
    }


ASSUME_COMMON = [
    "reference model: iter().position / rposition / filter().count() over the placed slice (mcore::oracle)",
    "the scaled-down vector VN<N> (hook H1, src/vector.rs) implements the Vector trait faithfully; it shares SensibleMoveMask with SSE2/AVX2/simd128",
    "host CPU has SSE2 and AVX2; 64-bit little-endian only (32-bit SWAR and big-endian mask swapping are not reachable on this host)",
]

PROPERTIES = {
    "C01": {
        "rule": "a shape is (needle bytes, haystack bytes, start offset in the arena, placement); all shapes of a job are distinct by construction (enumerated, never sampled)",
        "explanation": "Bounded-exhaustive exploration of the real forward byte-search code: generic One/Two/Three at VN<2,4,8,16,32> (every haystack over the role alphabet up to the length bound at every start offset), and the real SWAR/SSE2/AVX2/top-level code on the same spaces plus sparse/dense families at real vector widths; every execution compared with the naive reference; raw forms checked for pointer range and agreement with the slice form.",
        "assumptions": ASSUME_COMMON,
        "jobs": [
            bs("full", "find", RESULT),
            bs("values", "find", RESULT),
            bs("sparse", "find", RESULT),
            bs("raw-edges", "find", RESULT),
        ],
    },
    "C02": {
        "rule": "as C01; because every start offset 0..64 is enumerated for every length, every END alignment mod 64 occurs for every length",
        "explanation": "Same spaces as C01 through rfind / rfind_raw / memrchr*: the reverse scan aligns on the end pointer; (length, start offset) pairs cover every end alignment; matches that live only in the final re-check at the start of the haystack are members of the Full spaces.",
        "assumptions": ASSUME_COMMON,
        "jobs": [
            bs("full", "rfind", RESULT),
            bs("values", "rfind", RESULT),
            bs("sparse", "rfind", RESULT),
            bs("raw-edges", "rfind", RESULT),
        ],
    },
}



def ss(mode, subjects, classes, name, extra=None, tiers=("quick", "thorough"), profile="release", q=None, t=None):
    """q / t: extra args for the quick / thorough tier only."""
    job = {
        "name": name,
        "build": B("ss", profile),
        "args": [mode, "--tier", "{tier}"] + (["--subjects", subjects] if subjects else []) + (extra or []),
        "classes": classes,
        "tiers": tiers,
    }
    if q is not None or t is not None:
        job["tier_args"] = {"quick": q or [], "thorough": t or []}
    return job


FWD = "memmem,finder,finder-nopre,iter-first,finder-owned,finder-asref"
REV = "rmemmem,rfinder,riter-first,rfinder-owned"
BLOCKS = "twoway,rk,shiftor,pp-sse2,pp-avx2,pp-vn2,pp-vn4,pp-vn8,rtwoway,rrk"
PF = "pf-sse2,pf-avx2,pf-portable,pf-vn2,pf-vn4,pf-vn8"
PPS = "pp-sse2,pp-avx2,pp-vn8,pp-vn16"
PFS = "pf-sse2,pf-avx2,pf-portable,pf-vn8,pf-vn16"


def e_spaces(subjects, classes, tag, places=None):
    pl = ["--places", places] if places else []
    return [
        ss("e", subjects, classes, "ss/E2/" + tag, ["--letters", "ab"] + pl, q=["--nmax", "7", "--hmax", "15"], t=["--nmax", "8", "--hmax", "17"]),
        ss("e", subjects, classes, "ss/E3/" + tag, ["--letters", "abc"] + pl, q=["--nmax", "4", "--hmax", "10"], t=["--nmax", "5", "--hmax", "11"]),
        ss("e", subjects, classes, "ss/C64/" + tag, ["--letters", "c64"] + pl, q=["--nmax", "4", "--hmax", "9"], t=["--nmax", "5", "--hmax", "10"]),
        ss("e", subjects, classes, "ss/RK/" + tag, ["--letters", "rk"] + pl, q=["--nmax", "4", "--hmax", "9"], t=["--nmax", "5", "--hmax", "10"]),
    ]


ASSUME_SUB = [
    "reference model: windows().position / rposition with the empty-needle conventions (mcore::oracle)",
    "host CPU has SSE2 and AVX2, so Finder takes the AVX2 packed-pair / Two-Way+AVX2-prefilter strategies in this configuration (other dispatcher outcomes: C09)",
    "the scaled-down vector VN<N> (hook H1) implements the Vector trait faithfully",
]

PROPERTIES.update({
    "C03": {
        "rule": "a shape is (needle, haystack, placement); enumerated spaces: E2/E3 (all needles x all haystacks over 2/3 letters), C64 (bytes equal mod 64), RK (bytes 0,1,2: Rabin-Karp hash collisions), E2pad (cores x pad grid: both sides of the vector minimum), LN (long structured needles x every concatenation of their own factors x pad grid)",
        "explanation": "Bounded-exhaustive exploration of memmem::find, Finder::find (auto and no prefilter), find_iter().next(), the owned and as_ref forms, against the naive leftmost-occurrence model, over spaces that reach every strategy of the meta searcher (the per-strategy execution histogram is in the evidence).",
        "assumptions": ASSUME_SUB,
        "jobs": e_spaces(FWD, RESULT, "fwd") + [
            ss("epad", FWD, RESULT, "ss/E2pad/fwd", q=["--nmax", "3", "--hmax", "9"], t=["--nmax", "4", "--hmax", "12"]),
            ss("ln", FWD, RESULT, "ss/LN/fwd"),
        ],
    },
    "C04": {
        "rule": "as C03, reverse subjects",
        "explanation": "Same spaces as C03 through memmem::rfind, FinderRev::rfind, rfind_iter().next() and the owned form, against the naive rightmost-occurrence model (empty needle -> haystack.len()). The LN family contains every needle reversed-periodic shape (u^k, c u^k, u^k c, reversed Fibonacci).",
        "assumptions": ASSUME_SUB,
        "jobs": e_spaces(REV, RESULT, "rev") + [
            ss("epad", REV, RESULT, "ss/E2pad/rev", q=["--nmax", "3", "--hmax", "9"], t=["--nmax", "4", "--hmax", "12"]),
            ss("ln", REV, RESULT, "ss/LN/rev"),
        ],
    },
    "C11": {
        "rule": "a shape is (needle, index pair, haystack, placement)",
        "explanation": "Every public packed-pair prefilter (SSE2, AVX2, portable, and the generic code at VN<2,4,8,16>) over (a) all needles over a small alphabet x ALL valid index pairs x all binary haystacks of every length from min_haystack_len up, (b) long needles x far-apart/reversed pairs x pad grids with planted partial pair hits and false candidates, (c) the E-spaces with the default pair, (d) the private short-haystack fallback through Finder::find on LN. Oracle: candidate <= first occurrence, None only if no occurrence, pair bytes present at the candidate.",
        "assumptions": ASSUME_SUB,
        "jobs": [
            ss("pp-pairs", None, RESULT, "ss/pp-pairs"),
            ss("pp-real", PFS, RESULT, "ss/pp-real/prefilter"),
        ] + e_spaces(PF, RESULT, "prefilter")[:2] + [
            ss("epad", PF, RESULT, "ss/E2pad/prefilter", q=["--nmax", "3", "--hmax", "9"], t=["--nmax", "4", "--hmax", "12"]),
            ss("ln", PF + ",finder", RESULT, "ss/LN/prefilter+fallback"),
        ],
    },
    "C12": {
        "rule": "a shape is (needle, [index pair,] haystack, placement)",
        "explanation": "Each public building block (Two-Way fwd/rev, Rabin-Karp fwd/rev, Shift-Or, SSE2/AVX2/VN packed-pair find) against the naive model over E2/E3/C64/RK/LN and the pair spaces; constructors must return None exactly outside their domain (Shift-Or > 15 bytes, packed pair < 2 bytes).",
        "assumptions": ASSUME_SUB,
        "jobs": e_spaces(BLOCKS, RESULT, "blocks") + [
            ss("ln", BLOCKS, RESULT, "ss/LN/blocks"),
            ss("pp-pairs", None, RESULT, "ss/pp-pairs"),
            ss("pp-real", PPS, RESULT, "ss/pp-real/find"),
            ss("epad", "pp-sse2,pp-avx2,twoway,rk,rtwoway,rrk", RESULT, "ss/E2pad/blocks", q=["--nmax", "3", "--hmax", "9"], t=["--nmax", "4", "--hmax", "12"]),
        ],
    },
    "C18": {
        "rule": "a shape is (x, y, alignment of x, alignment of y, placement)",
        "explanation": "is_equal / is_prefix / is_suffix / is_equal_raw against ==, starts_with, ends_with: all pairs over {a,b} up to 7 (8) bytes; for every length 0..=64 (80) equal content and every single-byte difference at every position with three deltas, at all 8x8 relative alignments, and with both operands flush against PROT_NONE pages; unequal lengths.",
        "assumptions": ["reference model: slice ==, starts_with, ends_with", "an over-read next to a guard page kills the engine process, which the driver reports as a violation"],
        "jobs": [ss("equal", None, RESULT + ["crash"], "ss/equal")],
    },
    "C19": {
        "rule": "a case is (needle, ranker behaviour) or (needle length, index1, index2)",
        "explanation": "Pair::new / with_ranker for every needle over <=3 letters up to length 8 (10) under EVERY weak order of the letters' ranks (pair selection only compares ranks, so this exhausts ranker behaviours on those needles), for structured needles of length 2..600 under 11 named rankers (constant, identity, reversed, adversarial, permutations); Pair::with_indices for every (i1,i2) in 0..=255 squared on 10 needle lengths; every finder built from an accepted pair must echo it and report min_haystack_len = max(len, max index + V).",
        "assumptions": ["the stated contract (None iff len < 2; distinct offsets inside the needle and <= 254)"],
        "jobs": [ss("pairs", None, RESULT, "ss/pairs")],
    },
})



def it(mode, classes, name, extra=None, tiers=("quick", "thorough")):
    return {"name": name, "build": B("it"), "args": [mode, "--tier", "{tier}"] + (extra or []), "classes": classes, "tiers": tiers}


PROPERTIES.update({
    "C06": {
        "engine": "it (stateright)",
        "technique": "explicit-state model checking (stateright) with the real iterator object as the state, plus exhaustive un-deduplicated history enumeration",
        "rule": "a state is (haystack case, Debug rendering of the real iterator, reference counters); states are deduplicated by stateright's fingerprint of that key",
        "explanation": "For each of Memchr/Memchr2/Memchr3 and the SWAR/SSE2/AVX2 One/Two/Three iter(): every reachable state of the real iterator under every interleaving of next()/next_back(), from every haystack over the role alphabet up to the length bound at several alignments plus long sparse/dense haystacks. On every transition the yielded value is compared with the reference deque; in every state size_hint must bracket the remaining count, count() of a clone must equal it, and an exhausted iterator must return None from both ends three more times. The state key is cross-checked by enumerating all 2^d action strings without de-duplication.",
        "assumptions": ["reference model: the sorted positions of matching bytes, consumed as a deque", "the Debug rendering of the iterator exposes all of its state (cross-checked by the un-deduplicated history enumeration)"] + ASSUME_COMMON[2:],
        "jobs": [it("bytes", RESULT, "it/bytes")],
    },
    "C07": {
        "engine": "bs + it (stateright)",
        "technique": "bounded-exhaustive shape enumeration of count/count_raw + explicit-state exploration of partially consumed iterators",
        "rule": "shape spaces as C01; model states as C06",
        "explanation": "S: count / count_raw / iter().count() of generic One at VN<2..32> and of the real SWAR/SSE2/AVX2/top-level code over all role strings up to the length bound at every start offset (every lane pattern in head, unrolled body, vector loop and scalar tail) and sparse/dense families at real widths. H: in EVERY reachable state of C06's models, count() on a clone must equal the number of matches not yet yielded.",
        "assumptions": ASSUME_COMMON,
        "jobs": [
            bs("full", "count", RESULT),
            bs("values", "count", RESULT),
            bs("sparse", "count", RESULT),
            bs("raw-edges", "count", RESULT),
            it("bytes", RESULT, "it/bytes(count in every state)", ["--kinds", "top1,swar1,sse2-1,avx2-1"]),
        ],
    },
    "C08": {
        "engine": "it",
        "technique": "exhaustive exploration of every prefix of every iteration on the real iterator (chain walk), cross-checked by stateright on a sub-table",
        "rule": "a state is (case, Debug rendering of the real FindIter/FindRevIter incl. pos and prefilter counters, reference index)",
        "explanation": "find_iter / rfind_iter (top-level and Finder::find_iter, auto and no prefilter): every prefix of the iteration for all needles x all haystacks over {a,b} (self-overlapping needles in repetitive haystacks are all members), padded cores that reach the vector searchers, long structured needles x their factor haystacks, the TILE family (needles of 3..65 (2..80) bytes in every period class x every sequence of <= 3 (4) tiles out of needle / one period / near-miss prefix / last period / 1 or 16 filler bytes: back-to-back and self-overlapping occurrences at every distance from the haystack's ends), and the PF family whose early part drives the adaptive prefilter inert before later matches (the number of inert states is read off the real object). Each yielded offset is compared with the greedy non-overlapping reference; size_hint must bracket the remaining count in every state; None must be sticky; the empty needle must yield 0..=len exactly once.",
        "assumptions": ASSUME_SUB[:1] + ["PF haystacks are built from the pair Pair::new(needle) reports, which is the pair the AVX2 prefilter uses"],
        "jobs": [it("subs", RESULT, "it/subs")],
    },
    "C16": {
        "engine": "it (stateright + history enumeration)",
        "technique": "exhaustive enumeration of search histories on one finder object + explicit-state model with clone/into_owned as actions",
        "rule": "a history is a sequence of 3 searches over the needle's haystack set on one finder object in one of its forms; a model state is (case, Debug rendering of the iterator, reference index)",
        "explanation": "For each needle (all binary needles up to 4 (5), prefilter-history needles, long structured needles): every 3-step search history over a 9-12 element haystack set (incl. one that exhausts the prefilter, an empty one, one shorter than the needle) on ONE Finder / FinderRev object in each of the forms original, clone, as_ref, into_owned (built from a heap needle that is then overwritten and freed) and as_ref-of-owned; every result must equal the naive reference, and needle() the construction needle. Iterators: at every point of every iteration the iterator is cloned and converted with into_owned (needle buffer destroyed afterwards) and all three must continue identically; plus a stateright model with Next/Clone/IntoOwned as actions.",
        "assumptions": ASSUME_SUB[:1],
        "jobs": [it("finder", RESULT, "it/finder")],
    },
})



def vg(job, shard_env=None):
    """Runs an engine job under valgrind memcheck, single-threaded, in the background."""
    j = dict(job)
    j["valgrind"] = True
    j["bg"] = True
    j["env"] = {"VERIF_THREADS": "1", "VERIF_LN_NOFLIPS": "1"}
    j["name"] = "valgrind:" + job["name"]
    j["classes"] = MEMORY + ["valgrind"]
    return j


def bs_heap(ops, i, n, tier_lmax):
    return vg({"name": "bs/heap/%s/%d" % (ops, i), "build": B("bs"), "args": ["heap", "--tier", "{tier}", "--ops", ops, "--shard", "%d/%d" % (i, n)],
               "tier_args": {"quick": ["--lmax", str(tier_lmax[0])], "thorough": ["--lmax", str(tier_lmax[1])]}, "classes": MEMORY})


ALLSUB = FWD + "," + REV + "," + BLOCKS
GUARD = "guard-end,guard-start"

PROPERTIES.update({
    "C05": {
        "engine": "bs + ss with memory monitors",
        "technique": "bounded-exhaustive enumeration of executions of the real code under memory monitors (checked vector loads, PROT_NONE guard pages, valgrind memcheck on exact-size heap blocks)",
        "rule": "a shape is (operation, needle, haystack, placement); placements: plain arena at every start offset, flush against the trailing PROT_NONE page, directly after the leading PROT_NONE page, exact-size heap block under valgrind",
        "explanation": "Monitors decide, not return values. M-load: every load of the generic algorithms instantiated at VN<2..32> (memchr family and packed pair, find/rfind/count/find_prefilter) is checked to lie inside the haystack and, for load_aligned, to be aligned - over the full role-string spaces, the sparse families and the all-pairs packed-pair spaces. M-guard: the real SWAR/SSE2/AVX2/top-level byte searches, every substring entry point and building block (E2/E3 spaces, LN), is_equal/is_prefix/is_suffix, and safe calls whose needle differs from the construction needle run with the haystack (and needle) flush against PROT_NONE pages on either side; a stray read kills the engine process, which the driver reports. M-vg: the real SSE2/AVX2/SWAR byte searches and the substring entry points run under valgrind memcheck on heap blocks of exactly the haystack's size (byte-exact, also for aligned loads).",
        "assumptions": [
            "VN<N> loads are checked exactly; the real ISA code is observed through guard pages (blind to over-reads that stay inside the page) and valgrind memcheck (exact on the heap placements)",
            "reads before an unaligned start by the real ISA code are visible only as wrong answers (neighbour bytes are copies of the needle) or on the page-aligned guard-start placement",
            "compiler-level UB that causes no out-of-slice access is outside this property",
        ],
        "jobs": [
            bs("full", "find,rfind,count", MEMORY, name="bs/full/vn", extra=["--subjects", "vn2,vn4,vn8", "--l1", "15", "--l2", "9", "--l3", "7"], tiers=("quick",)),
            bs("full", "find,rfind,count", MEMORY, name="bs/full/vn", extra=["--subjects", "vn2,vn4,vn8"], tiers=("thorough",)),
            bs("sparse", "find,rfind,count", MEMORY, name="bs/sparse/vn", extra=["--subjects", "vn4,vn8,vn16,vn32"]),
            bs("guard", "find,rfind,count", MEMORY),
            ss("pp-pairs", None, MEMORY, "ss/pp-pairs"),
            ss("pp-real", "pp-vn8,pf-vn8,pp-vn16,pf-vn16,pp-sse2,pf-sse2,pp-avx2,pf-avx2", MEMORY, "ss/pp-real"),
            ss("e", ALLSUB, MEMORY, "ss/E2/guard", ["--letters", "ab", "--places", GUARD], q=["--nmax", "5", "--hmax", "12"], t=["--nmax", "7", "--hmax", "15"]),
            ss("e", ALLSUB, MEMORY, "ss/E3/guard", ["--letters", "abc", "--places", GUARD], q=["--nmax", "3", "--hmax", "8"], t=["--nmax", "4", "--hmax", "10"]),
            ss("epad", FWD + "," + REV + ",pp-sse2,pp-avx2,pf-sse2,pf-avx2", MEMORY, "ss/E2pad/plain", q=["--nmax", "3", "--hmax", "7"], t=["--nmax", "4", "--hmax", "10"]),
            ss("ln", ALLSUB, MEMORY, "ss/LN/guard", ["--places", GUARD]),
            ss("equal", None, MEMORY, "ss/equal"),
            ss("wrong-needle", None, MEMORY, "ss/wrong-needle"),
        ] + [bs_heap("find,rfind,count", i, 8, (140, 448)) for i in range(8)] + [
            vg(ss("e", FWD + "," + REV + ",twoway,rk,rtwoway,rrk,pp-sse2,pp-avx2", MEMORY, "ss/E2/heap", ["--letters", "ab", "--places", "heap", "--aligns", "0"], q=["--nmax", "3", "--hmax", "9"], t=["--nmax", "4", "--hmax", "11"])),
            vg(ss("epad", FWD + ",pp-sse2,pp-avx2,pf-sse2,pf-avx2", MEMORY, "ss/E2pad/heap", ["--places", "heap"], q=["--nmax", "2", "--hmax", "3"], t=["--nmax", "3", "--hmax", "5"])),
            vg(ss("ln", FWD + "," + REV + ",twoway,rtwoway", MEMORY, "ss/LN/heap", ["--places", "heap", "--lengths", "33", "--maxu", "1", "--pieces", "1", "--pad", "2"])),
        ],
    },
    "C14": {
        "engine": "ss + bs + it in the checked profile",
        "technique": "bounded-exhaustive enumeration of executions of the real code built with debug assertions and overflow checks, panics caught at the API boundary",
        "rule": "a case is an execution of a public entry point; for the documented panic: (finder, pair, haystack length) on both sides of min_haystack_len",
        "explanation": "Every engine runs the crate with debug assertions and integer-overflow checks compiled in and catches panics per call. C14 counts only the panic class: (1) the documented panic of the packed-pair finders (SSE2, AVX2, VN<2..16>; find and find_prefilter; needles 2..=20 (40) x a set of index pairs x every haystack length 0..=min+V+2, filler and needle-dense contents) must occur exactly when len < min_haystack_len, with the documented message - in the checked profile and again in a plain release build; (2) no other panic anywhere in the byte-search spaces, the substring spaces for every entry point and building block, pair selection, is_equal, the iterator models and the finder histories.",
        "assumptions": ["a panic inside the engine's own code is reported as a machinery error, not a verdict", "abort-on-overflow cannot occur: overflow checks panic in this profile"],
        "jobs": [
            ss("pp-panic", None, ["panic"], "ss/pp-panic"),
            ss("pp-panic", None, ["panic"], "ss/pp-panic(release build)", profile="fast"),
            bs("full", "find,rfind,count", ["panic"], name="bs/full", extra=["--l1", "14", "--l2", "9", "--l3", "7"], tiers=("quick",)),
            bs("full", "find,rfind,count", ["panic"], name="bs/full", tiers=("thorough",)),
            bs("sparse", "find,rfind,count", ["panic"], name="bs/sparse", tiers=("thorough",)),
            bs("values", "find,rfind,count", ["panic"], name="bs/values"),
            ss("e", ALLSUB + "," + PF, ["panic"], "ss/E2", ["--letters", "ab"], q=["--nmax", "6", "--hmax", "13"], t=["--nmax", "7", "--hmax", "16"]),
            ss("e", ALLSUB + "," + PF, ["panic"], "ss/E3", ["--letters", "abc"], q=["--nmax", "4", "--hmax", "9"], t=["--nmax", "5", "--hmax", "10"]),
            ss("epad", ALLSUB + "," + PF, ["panic"], "ss/E2pad", q=["--nmax", "3", "--hmax", "8"], t=["--nmax", "4", "--hmax", "11"]),
            ss("ln", ALLSUB + "," + PF, ["panic"], "ss/LN"),
            ss("pp-pairs", None, ["panic"], "ss/pp-pairs"),
            ss("pp-real", None, ["panic"], "ss/pp-real"),
            ss("pairs", None, ["panic"], "ss/pairs"),
            ss("equal", None, ["panic"], "ss/equal"),
            it("bytes", ["panic", "wrong_result"], "it/bytes"),
            it("subs", ["panic"], "it/subs"),
            it("finder", ["panic"], "it/finder"),
        ],
    },
    "C17": {
        "engine": "ss with the allocation probe",
        "technique": "bounded-exhaustive enumeration of executions of the real code under a counting global allocator",
        "rule": "a case is (entry point, needle, haystack); the probe is the number of allocator calls made by the calling thread between entering and leaving the call",
        "explanation": "A counting #[global_allocator] is installed in the engine; around the construction of every searcher from a borrowed needle and around every search call the per-thread allocation count must not change: memmem::find/rfind, Finder/FinderRev (auto and no prefilter), find_iter/rfind_iter (first step and complete traversals), Two-Way, Rabin-Karp, the packed-pair finders and prefilters, over E2/E3/E2pad/LN (every strategy of the meta searcher, histogram in the evidence), and the memchr family with all of its iterators. Positive controls: into_owned must be seen allocating (otherwise the run is a machinery error); Shift-Or and the owning conversions are exempt.",
        "assumptions": ["allocation = a call to the global allocator (alloc, alloc_zeroed, realloc) on the calling thread"],
        "jobs": [
            ss("e", FWD + "," + REV + ",twoway,rk,rtwoway,rrk,pp-sse2,pp-avx2,pf-sse2,pf-avx2,pf-portable,shiftor", ["alloc"], "ss/E2", ["--letters", "ab"], q=["--nmax", "6", "--hmax", "13"], t=["--nmax", "7", "--hmax", "16"]),
            ss("e", FWD + "," + REV, ["alloc"], "ss/E3", ["--letters", "abc"], q=["--nmax", "4", "--hmax", "9"], t=["--nmax", "5", "--hmax", "10"]),
            ss("epad", FWD + "," + REV + ",pp-sse2,pp-avx2,pf-sse2,pf-avx2", ["alloc"], "ss/E2pad", q=["--nmax", "3", "--hmax", "8"], t=["--nmax", "4", "--hmax", "11"]),
            ss("ln", FWD + "," + REV + ",twoway,rtwoway,pf-avx2,pf-portable", ["alloc"], "ss/LN"),
            ss("memchr-alloc", None, ["alloc"], "ss/memchr-alloc"),
        ],
    },
})



LOOM_BUILD = {"bin": "loomcheck", "package": "loomcheck", "profile": "release",
              "env": {"RUSTFLAGS": "--cfg memchr_verif --cfg memchr_verif=\"loom\""},
              "target_dir": "/verif/harness/target-loom"}


def sendsync_handler(job, tier, seed, workdir, drv):
    """Compile probe: every public searcher/iterator type is Send + Sync."""
    import subprocess, os, re, time
    d = "/verif/harness/probes/sendsync"
    env = drv.cargo_env({"CARGO_TARGET_DIR": "/verif/harness/target-probe"})
    t0 = time.time()
    p = subprocess.run(["cargo", "build", "--offline", "--release"], cwd=d, env=env, stdout=subprocess.PIPE, stderr=subprocess.STDOUT, text=True)
    res = {"job": "sendsync-probe", "evaluations": 31, "states": 31, "distinct_nontrivial": 31, "histogram": {}, "samples": [
        {"probe": "fn ss<T: Send + Sync>() instantiated for Memchr*, Finder, FinderRev, FindIter, FindRevIter, One/Two/Three and their iterators (swar, sse2, avx2), packed-pair finders, Two-Way, Rabin-Karp, Shift-Or"}],
        "violation_count": 0, "violations": [], "machinery_errors": [], "caps_hit": [],
        "extra": {"exhaustive": True, "nontrivial_rule": "one compile-time obligation per public type", "bounds": {"types": 31}}}
    if p.returncode != 0:
        if re.search(r"cannot be (sent|shared) between threads safely", p.stdout):
            msg = [l for l in p.stdout.splitlines() if "cannot be" in l or "within `" in l][:4]
            res["violation_count"] = 1
            res["histogram"]["violation/not_send_sync"] = 1
            res["violations"].append({"class": "not_send_sync", "what": "[not_send_sync] a public searcher/iterator type is no longer Send + Sync: " + " | ".join(msg),
                                      "replay_argv": None, "detail": {"class": "not_send_sync", "compiler": p.stdout[-2000:]}})
        else:
            drv.log(p.stdout[-3000:])
            drv.machinery("Send/Sync probe failed to build for another reason")
    res["_wall_s"] = time.time() - t0
    drv.log("  job %-28s %10d evals %8d viol  %.1fs" % (job["name"], 31, res["violation_count"], res["_wall_s"]))
    return res, None


PROPERTIES.update({
    "C15": {
        "engine": "loomcheck (loom 0.7.2)",
        "technique": "stateless model checking of thread interleavings (loom, C11 memory model) on the real dispatch code",
        "rule": "an execution is one complete interleaving of a multi-threaded program over the real unsafe_ifunc! cells; loom enumerates all of them (2 threads: unbounded preemptions; 3 threads: preemption bound 3) with partial-order reduction",
        "explanation": "The real unsafe_ifunc! macro is built with loom's AtomicPtr and lazy_static (hook H4), so every execution starts in the first-call-in-the-process state and loom decides what each Relaxed load may return. Programs: 2 threads x 2 calls and 3 threads x 1-2 calls drawn from all seven dispatched routines so that first calls collide on the same cell and on different cells, with per-thread haystacks that take the scalar, SSE2 and AVX2 routes. Every return value must equal the sequential reference. The evidence reports how many executions had two threads racing through the same cell's detect (a run in which none did is a machinery error). Sharing one Finder/FinderRev and moving cloned iterators across threads is explored too, but there is no synchronisation inside a search, so loom only has thread start/finish orders to vary there; that part is complemented by a compile-time Send+Sync probe of all 31 public searcher/iterator types. Second build: the same programs run against a scratch copy of the crate in which EVERY core/std::sync::atomic, spin-loop hint and std::sync primitive is mechanically rewritten to its loom counterpart (bin/archcopy.py, variant kloom), so synchronisation that a change introduces anywhere - e.g. a lazily initialised field inside a shared Finder - is explored as well: searchers are built inside the model, threads perform their first searches (short Rabin-Karp-routed haystacks and long ones) on the shared object.",
        "assumptions": ["loom's model of Relaxed atomics (C11) and its partial-order reduction are sound", "an engine crash (e.g. a call through a null/garbage pointer) is reported as a violation", "data races on non-atomic shared state introduced into a searcher would need a race detector (not part of the deciding step)"],
        "jobs": [
            {"name": "loomcheck", "build": LOOM_BUILD, "args": ["--tier", "{tier}"], "classes": None},
            {"name": "loomcheck[loom-visible copy]", "build": {"bin": "loomcheck", "variant": "kloom", "profile": "release"}, "args": ["--tier", "{tier}"], "classes": None},
            {"name": "sendsync-probe", "handler": sendsync_handler, "classes": None},
        ],
    },
})



NAMED_RANKERS = ["default", "zero", "max255", "identity", "reversed", "needle-common", "needle-rare", "perm1", "perm2", "perm3", "perm4"]
# every weak order of ranks on a 3-letter alphabet (13) - for needles over
# {a,b} only the first two digits matter (3 distinct behaviours)
WEAK_ORDERS = ["000", "001", "010", "011", "012", "021", "100", "101", "102", "110", "120", "201", "210"]


def ranked(rids, kinds=("ranked", "rankedall"), pres=("auto", "none")):
    return ",".join("%s:%s:%s" % (k, r, p) for r in rids for k in kinds for p in pres if not (k == "rankedall" and p == "none"))


PROPERTIES.update({
    "C10": {
        "engine": "ss",
        "technique": "bounded-exhaustive enumeration of executions of the real code across builder configurations, each compared with the naive reference",
        "rule": "a case is (needle, haystack, ranker, prefilter setting); rankers: 11 named ones plus EVERY weak order of ranks on the needle's alphabet for alphabets of <= 3 letters (pair selection only compares ranks, so these exhaust ranker behaviours for such needles)",
        "explanation": "Finders built with FinderBuilder under every ranker x {Prefilter::Auto, Prefilter::None} are run (one-shot find and complete find_iter traversals) over E3 (weak-order rankers, all needles over {a,b,c}), E2pad (short needles: the ranker picks the pair of the vector searcher), LN (long needles: the ranker picks the prefilter's pair) and PF (prefilter-history haystacks built per (needle, ranker) from the pair that ranker selects, straddling the >= 50 calls / < 8 bytes-per-call frontier from both sides); every result must equal the naive reference, hence equal across configurations. The number of iterations that ended with the prefilter inert is read off the real iterator and reported.",
        "assumptions": ASSUME_SUB[:2] + ["on this host the ranker reaches the AVX2 pair; the portable prefilter's absolute-rank cut-off is reached in the no-SIMD configuration (C09 matrix)"],
        "jobs": [
            ss("e", ranked(["wo:" + w for w in WEAK_ORDERS]), RESULT, "ss/E3/weak-order rankers", ["--letters", "abc", "--nmin", "2"], q=["--nmax", "4", "--hmax", "8"], t=["--nmax", "5", "--hmax", "10"]),
            ss("epad", ranked(NAMED_RANKERS + ["wo:00", "wo:01", "wo:10"]), RESULT, "ss/E2pad/rankers", q=["--nmax", "3", "--hmax", "7"], t=["--nmax", "4", "--hmax", "10"]),
            ss("ln", ranked(NAMED_RANKERS), RESULT, "ss/LN/rankers"),
            ss("pf", None, RESULT, "ss/PF/rankers", q=["--rankers", ",".join(NAMED_RANKERS[:9])], t=["--rankers", ",".join(NAMED_RANKERS)]),
        ],
    },
})



def V(binname, variant, profile="release"):
    return {"bin": binname, "variant": variant, "profile": profile}


def K(binname, k, profile="release"):
    return {"bin": "%s-%s" % (binname, k), "package": "checks-%s" % k, "profile": profile}


K6_BUILD = {"bin": "tx", "package": "checks", "profile": "release", "target_dir": "/verif/harness/target-k6",
            "env": {"RUSTFLAGS": "--cfg memchr_verif -C target-feature=+avx2"}}

EXPECT = {
    "k1": "sse2=true,avx2=true,neon=-,simd128=-",
    "k4": "sse2=true,avx2=false,neon=-,simd128=-",
    "k3": "sse2=false,avx2=false,neon=-,simd128=-",
    "k7": "sse2=-,avx2=-,neon=true,simd128=-",
    "k8": "sse2=-,avx2=-,neon=-,simd128=true",
    "k9": "sse2=-,avx2=-,neon=-,simd128=-",
    "k10": "sse2=-,avx2=-,neon=false,simd128=-",
}


def tx(name, build, expect, tiers=("quick", "thorough")):
    return {"name": "tx/" + name, "build": build, "args": ["--tier", "{tier}", "--expect", expect], "classes": None, "tiers": tiers}


def c09_post(results):
    """All configurations must have produced the same transcript digest."""
    digests = {}
    for job, res in results:
        d = res.get("extra", {}).get("digest")
        if d:
            digests.setdefault(d, []).append(job["name"])
    if len(digests) > 1:
        return [("[config_disagreement] configurations produced different transcripts: %s" % json_dumps(digests), {"class": "config_disagreement", "digests": digests})]
    return []


def json_dumps(x):
    import json
    return json.dumps(x, sort_keys=True)


PROPERTIES.update({
    "C09": {
        "engine": "tx (one transcript, many builds of the crate)",
        "technique": "bounded-exhaustive enumeration of executions of the real code in every build configuration / dispatcher outcome, each compared with the reference model and with each other (transcript digests)",
        "rule": "a case is one call sequence of the transcript (memchr family incl. iterators on a placed haystack, or the memmem family on a needle/haystack pair); the same cases run in every configuration",
        "explanation": "The same deterministic transcript - the top-level API only: memchr/2/3, memrchr/2/3, count, forward/reverse/double-ended iterators, memmem find/rfind, Finder, FinderRev, the no-prefilter finder, find_iter/rfind_iter sequences over full binary strings, sparse haystacks at real vector widths at every start offset, E2, padded cores, long structured needles and prefilter histories - is executed by separately built copies of the crate: K1 std/AVX2 (this host), K4 alloc-only (avx2::is_available() is constant false: the dispatcher's and meta searcher's SSE2-only branches), K5 no features, K6 compiled with +avx2, K12 logging feature, K3 x86_64 with the sse2 cfg switched off (fallback arm, SWAR, Two-Way for all needles, portable prefilter), K7 aarch64+neon and K8 wasm32+simd128 against emulated intrinsics, K9 'any other architecture', K10 aarch64 without neon; K1/K4/K5 also without debug assertions. Each process first asserts through the public is_available() functions that it is the configuration it claims to be. Every answer is compared with the naive reference, and all configurations must produce the same transcript digest.",
        "assumptions": [
            "K3/K7/K8/K9/K10 are mechanically cfg-rewritten scratch copies of the current /repo/src (rules in bin/archcopy.py; a rule that matches nothing is a machinery error)",
            "NEON and simd128 run against emulated intrinsics (harness/emul/verif_emul.rs, written from the Arm ARM and the wasm SIMD spec) - trusted base",
            "32-bit usize SWAR and big-endian mask handling cannot be produced on this host and are not covered",
        ],
        "post": c09_post,
        "jobs": [
            tx("K1 std, runtime AVX2", B("tx"), EXPECT["k1"]),
            tx("K1 release profile", B("tx", "fast"), EXPECT["k1"]),
            tx("K4 alloc only (SSE2-only outcome)", K("tx", "k4"), EXPECT["k4"]),
            tx("K4 release profile", K("tx", "k4", "fast"), EXPECT["k4"]),
            tx("K5 no features", K("tx", "k5"), EXPECT["k4"]),
            tx("K5 release profile", K("tx", "k5", "fast"), EXPECT["k4"]),
            tx("K6 -C target-feature=+avx2", K6_BUILD, EXPECT["k1"]),
            tx("K12 logging feature", K("tx", "k12"), EXPECT["k1"]),
            tx("K3 x86_64 without sse2", V("tx", "k3"), EXPECT["k3"]),
            tx("K7 aarch64+neon (emulated)", V("tx", "k7"), EXPECT["k7"]),
            tx("K8 wasm32+simd128 (emulated)", V("tx", "k8"), EXPECT["k8"]),
            tx("K9 other architecture", V("tx", "k9"), EXPECT["k9"]),
            tx("K10 aarch64 without neon", V("tx", "k10"), EXPECT["k10"]),
        ],
    },
})



# ---------------------------------------------------------------------------
# The same engines under other dispatcher outcomes / emulated architectures.
#   k4  alloc-only build  -> SSE2-only outcome of the dispatcher and of the
#                            substring meta searcher
#   k3  x86_64 w/o sse2   -> fallback arm: SWAR, Two-Way for every needle,
#                            portable prefilter
#   k7  aarch64+neon, k8 wasm32+simd128 (emulated intrinsics, loads monitored)
#   k9  any other architecture (SWAR wiring)

def vb(engine, k):
    return K(engine, k) if k in ("k4", "k5", "k12") else V(engine, k)


BS_SUBJ = {"k4": "sse2,top,swar", "k3": "swar,top", "k7": "neon,top", "k8": "simd128,top", "k9": "top,swar"}


def bs_variants(ops, classes, ks=("k4", "k3", "k7", "k8", "k9")):
    out = []
    for k in ks:
        out.append({"name": "bs[%s]/full/%s" % (k, ops), "build": vb("bs", k), "classes": classes,
                    "args": ["full", "--tier", "{tier}", "--ops", ops, "--subjects", BS_SUBJ[k]],
                    "tier_args": {"quick": ["--l1", "13", "--l2", "8", "--l3", "6"], "thorough": ["--l1", "18", "--l2", "11", "--l3", "9"]}})
        out.append({"name": "bs[%s]/sparse/%s" % (k, ops), "build": vb("bs", k), "classes": classes,
                    "args": ["sparse", "--tier", "{tier}", "--ops", ops, "--subjects", BS_SUBJ[k].replace(",swar", "").replace("swar,", "")],
                    "tier_args": {"quick": ["--lmax", "100", "--lsingle", "100", "--ks", "1"], "thorough": ["--lmax", "160", "--lsingle", "300", "--ks", "2"]}})
    return out


FWD_K = {"k4": FWD + ",pp-sse2,pf-sse2", "k3": FWD + ",pf-portable,twoway", "k7": FWD + ",pp-neon,pf-neon", "k8": FWD + ",pp-simd128,pf-simd128", "k9": FWD}


def ss_variants(subj_by_k, classes, tag, ks=("k4", "k3", "k7", "k8", "k9")):
    out = []
    for k in ks:
        sub = subj_by_k[k] if isinstance(subj_by_k, dict) else subj_by_k
        b = vb("ss", k)
        out.append({"name": "ss[%s]/E2/%s" % (k, tag), "build": b, "classes": classes,
                    "args": ["e", "--tier", "{tier}", "--subjects", sub, "--letters", "ab"],
                    "tier_args": {"quick": ["--nmax", "5", "--hmax", "12"], "thorough": ["--nmax", "7", "--hmax", "15"]}})
        out.append({"name": "ss[%s]/E2pad/%s" % (k, tag), "build": b, "classes": classes,
                    "args": ["epad", "--tier", "{tier}", "--subjects", sub],
                    "tier_args": {"quick": ["--nmax", "3", "--hmax", "7"], "thorough": ["--nmax", "4", "--hmax", "10"]}})
        out.append({"name": "ss[%s]/LN/%s" % (k, tag), "build": b, "classes": classes,
                    "args": ["ln", "--tier", "{tier}", "--subjects", sub]})
    return out


PP_K = {"k7": "pp-neon,pf-neon", "k8": "pp-simd128,pf-simd128", "k4": "pp-sse2,pf-sse2"}


def pp_variants(classes, mode="pp-real", ks=("k7", "k8", "k4")):
    return [{"name": "ss[%s]/%s" % (k, mode), "build": vb("ss", k), "classes": classes,
             "args": [mode, "--tier", "{tier}", "--subjects", PP_K[k]]} for k in ks]


for pid, ops in (("C01", "find"), ("C02", "rfind"), ("C07", "count")):
    PROPERTIES[pid]["jobs"] += bs_variants(ops, RESULT)
    PROPERTIES[pid]["explanation"] += " The same exploration is repeated on separately built copies of the crate: the SSE2-only dispatcher outcome (alloc-only build), the fallback outcome (x86_64 with sse2 cfg'd off), aarch64+NEON and wasm32+simd128 against emulated intrinsics (NeonMoveMask first/last offset and count, simd128 movemask), and the 'any other architecture' SWAR wiring."
    PROPERTIES[pid]["assumptions"] = PROPERTIES[pid]["assumptions"] + ["NEON/simd128 run against emulated intrinsics (harness/emul/verif_emul.rs) in a mechanically cfg-rewritten copy of the current tree"]

PROPERTIES["C03"]["jobs"] += ss_variants(FWD_K, RESULT, "fwd")
PROPERTIES["C03"]["explanation"] += " Repeated under the other dispatcher outcomes and architectures (K4 SSE2-only packed pair and SSE2 prefilter; K3 no SIMD: Two-Way for every needle >= 2 and the portable prefilter; K7 NEON and K8 simd128 packed pair against emulated intrinsics; K9 other architecture)."
PROPERTIES["C04"]["jobs"] += ss_variants(REV, RESULT, "rev", ks=("k3", "k7", "k9"))
PROPERTIES["C04"]["explanation"] += " Repeated in the no-SIMD, emulated-NEON and other-architecture builds (memrchr routing for one-byte needles differs per backend)."
PROPERTIES["C11"]["jobs"] += pp_variants(RESULT)
PROPERTIES["C11"]["explanation"] += " NEON and simd128 prefilters run against emulated intrinsics; the SSE2 prefilter also in the SSE2-only build."
PROPERTIES["C12"]["jobs"] += pp_variants(RESULT) + ss_variants({"k7": "pp-neon,twoway,rk", "k8": "pp-simd128,twoway,rk"}, RESULT, "blocks", ks=("k7", "k8"))
PROPERTIES["C14"]["jobs"] += pp_variants(["panic"], "pp-panic", ks=("k7", "k8")) + [j for j in bs_variants("find,rfind,count", ["panic"], ks=("k7", "k8", "k3")) if "/full/" in j["name"]]
PROPERTIES["C05"]["jobs"] += bs_variants("find,rfind,count", MEMORY, ks=("k7", "k8")) + pp_variants(MEMORY, ks=("k7", "k8")) + ss_variants({"k7": FWD_K["k7"] + "," + REV, "k8": FWD_K["k8"] + "," + REV}, MEMORY, "all", ks=("k7", "k8")) + [
    {"name": "bs[k3]/guard", "build": V("bs", "k3"), "classes": MEMORY, "args": ["guard", "--tier", "{tier}", "--ops", "find,rfind,count", "--subjects", "swar,top"]},
    {"name": "ss[k3]/E2/guard", "build": V("ss", "k3"), "classes": MEMORY, "args": ["e", "--tier", "{tier}", "--subjects", FWD + "," + REV + ",pf-portable,twoway,rtwoway", "--letters", "ab", "--places", GUARD, "--nmax", "5", "--hmax", "12"]},
    {"name": "ss[k3]/LN/guard", "build": V("ss", "k3"), "classes": MEMORY, "args": ["ln", "--tier", "{tier}", "--subjects", FWD + "," + REV + ",pf-portable", "--places", GUARD]},
]
PROPERTIES["C05"]["explanation"] += " In the emulated aarch64/NEON and wasm32/simd128 builds every vector load of the real ISA modules reports to the same load monitor (exact bounds), and the simd128 aligned load is a real aligned dereference checked by rustc's alignment assertion; the no-SIMD build runs the guard-page placements through the SWAR code, Two-Way for short needles and the portable prefilter."
PROPERTIES["C10"]["jobs"] += [
    {"name": "ss[k3]/LN/rankers (portable prefilter, MAX_FALLBACK_RANK)", "build": V("ss", "k3"), "classes": RESULT, "args": ["ln", "--tier", "{tier}", "--subjects", ranked(NAMED_RANKERS)]},
    {"name": "ss[k3]/PF/rankers", "build": V("ss", "k3"), "classes": RESULT, "args": ["pf", "--tier", "{tier}", "--rankers", ",".join(NAMED_RANKERS)]},
    {"name": "ss[k3]/E2pad/rankers", "build": V("ss", "k3"), "classes": RESULT, "args": ["epad", "--tier", "{tier}", "--subjects", ranked(NAMED_RANKERS[:7]), "--nmax", "3", "--hmax", "6"]},
    {"name": "ss[k4]/LN/rankers (SSE2 prefilter)", "build": K("ss", "k4"), "classes": RESULT, "args": ["ln", "--tier", "{tier}", "--subjects", ranked(NAMED_RANKERS)]},
    {"name": "ss[k4]/PF/rankers", "build": K("ss", "k4"), "classes": RESULT, "args": ["pf", "--tier", "{tier}", "--rankers", ",".join(NAMED_RANKERS)]},
]
PROPERTIES["C10"]["explanation"] += " Repeated in the no-SIMD build (K3: every ranker reaches the portable prefilter and its absolute-rank cut-off) and the SSE2-only build (K4)."



import work as WORK  # noqa: E402

PROPERTIES.update({
    "C13": {
        "engine": "wk under valgrind/callgrind",
        "technique": "exhaustive enumeration of a declared grid of adversarial (family, size) instances executed on the real code, work measured as exact instruction counts (callgrind) against a declared linear budget",
        "rule": "an instance is (operation, adversarial family, haystack size n, needle size m); the grid is enumerated completely, one callgrind process per instance",
        "explanation": "Work is observed, not inferred: each instance runs Finder::new+find, FinderRev::new+rfind, complete find_iter / rfind_iter traversals or one-shot memmem::find/rfind inside one function whose executed-instruction count (Ir) callgrind reports exactly and deterministically, so every loop - including ones a change adds - is seen without hooks. Families: a^(m-1)b in a^n, in (a^(m-1)c)^r and in (a^(m-2)b^(m-1))^r (every a is a vector-searcher candidate that fails late: the family on which the 32-byte cap matters), b a^(m-1) in a^n, a^m in a^n (dense matches), periodic needles in haystacks of their near-periods, Fibonacci and Thue-Morse words, needles whose two rare bytes recur at every position, a huge candidate-free prefix followed by dense late-failing false candidates (keeps the adaptive prefilter on), Rabin-Karp's 2^32-collision needle a^(m-33)ba^32, a small-period needle against blocks of its own period, and dense matches of 0/1/2-byte needles; sizes n in {2^12, 2^15} (thorough: up to 2^20) x m in {8,32,33,250,1000,4000} (thorough: up to 16000). Verdict: Ir <= 100*(n+m) + 320*matches + 50000 for every instance, where matches is the number of offsets an iterator yields (on the unchanged tree the worst per-byte work beyond that allowance is 39 Ir/byte, and the per-match call overhead at most 126 Ir). Super-linear work per byte grows with m without bound, so a fixed constant separates as long as the grid contains large m.",
        "assumptions": ["instruction count under callgrind is the measure of 'elementary steps' (a change that is linear but with a larger constant stays below the budget: it is not a violation)", "the budget constants are declared in bin/work.py, not fitted at run time", "a bound on enumerated families and sizes, not an asymptotic proof"],
        "jobs": [{"name": "work/callgrind", "handler": WORK.handler, "classes": None}],
    },
})



# SF space (short needles x pairs of near-occurrences, padded past the
# Rabin-Karp cut-off) - added after independently written changes to the
# Two-Way small-period code showed that haystacks >= 16 bytes with foreign
# bytes between near-occurrences were not reached by the E-spaces.
def sf(build, subjects, classes, name, extra=None):
    return {"name": name, "build": build, "classes": classes, "args": ["sf", "--tier", "{tier}", "--subjects", subjects] + (extra or [])}


PROPERTIES["C03"]["jobs"] += [
    sf(B("ss"), FWD, RESULT, "ss/SF/fwd"),
    sf(V("ss", "k3"), FWD + ",twoway", RESULT, "ss[k3]/SF/fwd (Two-Way + portable prefilter)"),
    sf(K("ss", "k4"), "finder,memmem,iter-first", RESULT, "ss[k4]/SF/fwd"),
    sf(V("ss", "k7"), "finder,memmem", RESULT, "ss[k7]/SF/fwd"),
]
PROPERTIES["C03"]["rule"] += "; SF (every needle of 2..=5 (6) letters over {a,b,c} x pairs of its own near-occurrences - needle, every single-byte change, every proper prefix/suffix - x gaps of <= 2 letters x pad grid)"
PROPERTIES["C04"]["jobs"] += [
    sf(B("ss"), REV, RESULT, "ss/SF/rev"),
    sf(V("ss", "k3"), REV + ",rtwoway", RESULT, "ss[k3]/SF/rev"),
]
PROPERTIES["C04"]["rule"] += "; SF as in C03 (reverse Two-Way is used for every needle >= 2 bytes once the haystack has >= 16 bytes)"
PROPERTIES["C12"]["jobs"] += [
    sf(B("ss"), "twoway,rtwoway,rk,rrk,pp-sse2,pp-avx2,shiftor", RESULT, "ss/SF/blocks"),
]
PROPERTIES["C10"]["jobs"] += [
    sf(V("ss", "k3"), ranked(["default", "zero", "max255", "needle-common", "needle-rare", "wo:012", "wo:210", "wo:001"], kinds=("ranked",)), RESULT, "ss[k3]/SF/rankers", ["--nmax", "4"]),
]
PROPERTIES["C08"]["jobs"] += [
    {"name": "it[k3]/subs (Two-Way + portable prefilter for every needle)", "build": V("it", "k3"), "classes": RESULT, "args": ["subs", "--tier", "{tier}"]},
    {"name": "it[k4]/subs (SSE2-only)", "build": {"bin": "it-k4", "package": "checks-k4", "profile": "release"}, "classes": RESULT, "args": ["subs", "--tier", "{tier}", "--families", "pad,pf"], "tiers": ("thorough",)},
]
PROPERTIES["C08"]["explanation"] += " Families added after seeded changes were missed: SF (short needles over {a,b,c} against pairs and triples of their own near-occurrences, padded past the 16-byte Rabin-Karp cut-off), LN with a change at every needle position, and PF+zoo (the prefilter is first driven inert, then the iterator meets every factor haystack of the needle). The whole walk is repeated in the no-SIMD build, where Two-Way with the portable prefilter serves every needle of >= 2 bytes."
PROPERTIES["C06"]["jobs"] += [
    {"name": "it[k7]/bytes (emulated NEON)", "build": V("it", "k7"), "classes": RESULT, "args": ["bytes", "--tier", "{tier}", "--kinds", "top1,top2,top3,neon-1,neon-2,neon-3", "--l1", "9", "--l23", "5"]},
    {"name": "it[k8]/bytes (emulated simd128)", "build": V("it", "k8"), "classes": RESULT, "args": ["bytes", "--tier", "{tier}", "--kinds", "top1,top2,top3,simd128-1,simd128-2,simd128-3", "--l1", "9", "--l23", "5"]},
    {"name": "it[k3]/bytes (dispatcher fallback)", "build": V("it", "k3"), "classes": RESULT, "args": ["bytes", "--tier", "{tier}", "--kinds", "top1,top2,top3", "--l1", "9", "--l23", "5"]},
]
PROPERTIES["C06"]["explanation"] += " Repeated for the emulated NEON and simd128 iterators and for the top-level iterators under the dispatcher's fallback outcome."



# ---- additions after the second round of independently seeded changes
PROPERTIES["C07"]["jobs"] += [
    bs("long", "count", RESULT, name="bs/long/count (accumulator-overflow sizes)"),
    {"name": "bs[k3]/long/count", "build": V("bs", "k3"), "classes": RESULT, "args": ["long", "--tier", "{tier}", "--ops", "count", "--subjects", "swar,top"]},
]
PROPERTIES["C07"]["explanation"] += " Long haystacks (V*{255,256,257}+d for V in 8..128; thorough also V*65536) with a match every p bytes at every phase exercise the sizes at which a narrow per-lane accumulator would wrap."
PROPERTIES["C01"]["jobs"] += [bs("long", "find", RESULT, name="bs/long/find", tiers=("thorough",))]
PROPERTIES["C02"]["jobs"] += [bs("long", "rfind", RESULT, name="bs/long/rfind", tiers=("thorough",))]
PROPERTIES["C05"]["jobs"] += [
    ss("e", "memmem,finder,rk,rrk,rmemmem,rfinder,twoway", MEMORY, "ss/RK/guard (hash collisions at the last window)", ["--letters", "rk", "--places", GUARD], q=["--nmax", "4", "--hmax", "9"], t=["--nmax", "5", "--hmax", "10"]),
    ss("e", "memmem,finder,rk,rrk,rmemmem,rfinder", MEMORY, "ss/C64/guard", ["--letters", "c64", "--places", GUARD], q=["--nmax", "3", "--hmax", "8"], t=["--nmax", "4", "--hmax", "10"]),
]
PROPERTIES["C17"]["jobs"] += [
    ss("ln", ranked(["default", "identity", "zero", "needle-common", "perm1", "wo:01"], kinds=("ranked",)), ["alloc"], "ss/LN/ranked finders"),
    ss("epad", ranked(["identity", "zero", "wo:01", "wo:10"], kinds=("ranked",)), ["alloc"], "ss/E2pad/ranked finders", q=["--nmax", "3", "--hmax", "6"], t=["--nmax", "4", "--hmax", "9"]),
]
PROPERTIES["C17"]["explanation"] += " Finders built with build_forward_with_ranker (the harness' rankers are constructed without allocating) are inside the probe too."



def nl(build, subjects, classes, name, letters="ab"):
    return {"name": name, "build": build, "classes": classes, "args": ["nl", "--tier", "{tier}", "--subjects", subjects, "--letters", letters]}


PROPERTIES["C12"]["jobs"] += [
    nl(B("ss"), "twoway,rtwoway,rk,rrk", RESULT, "ss/NL2/blocks"),
    nl(B("ss"), "twoway,rtwoway", RESULT, "ss/NL3/blocks", "abc"),
]
PROPERTIES["C12"]["explanation"] += " NL: every binary needle of 8..=13 (16) and ternary needle of 6..=8 (10) letters - long enough for every shape of the maximal/minimal-suffix computation - against haystacks derived from the needle (behind short letter runs, behind its own proper suffixes, in front of its own proper prefixes, tripled, and the same with the first/last byte changed)."
PROPERTIES["C03"]["jobs"] += [
    nl(V("ss", "k3"), "finder,finder-nopre,memmem", RESULT, "ss[k3]/NL2/fwd"),
    nl(V("ss", "k3"), "finder,finder-nopre", RESULT, "ss[k3]/NL3/fwd", "abc"),
    nl(B("ss"), "finder,memmem,iter-first", RESULT, "ss/NL2/fwd"),
]
PROPERTIES["C04"]["jobs"] += [
    nl(B("ss"), "rfinder,rmemmem,riter-first", RESULT, "ss/NL2/rev"),
    nl(B("ss"), "rfinder", RESULT, "ss/NL3/rev", "abc"),
]



# ---- additions after the third round of independently seeded changes
for pid, op in (("C01", "find"), ("C02", "rfind"), ("C07", "count")):
    PROPERTIES[pid]["jobs"] += [
        bs("long-single", op, RESULT, name="bs/long-single/%s (length-threshold sizes)" % op),
        {"name": "bs[k7]/long-single/%s" % op, "build": V("bs", "k7"), "classes": RESULT, "args": ["long-single", "--tier", "{tier}", "--ops", op, "--subjects", "neon"], "tiers": ("thorough",)},
    ]
    PROPERTIES[pid]["explanation"] += " `long-single`: haystacks of V*{8,16,32,33,64,65,128,129}+d bytes (and 256/1024/2048/4096 for the real code) with their only match at each of the first and last 6V positions, at every start offset, for every needle role and both neighbour fills - the sizes at which code gated on a length threshold is first entered (the generic code at VN<2,4,8> enters vector-relative thresholds at 16..1032 bytes)."
PROPERTIES["C05"]["jobs"] += [bs("long-single", "find,rfind,count", MEMORY, name="bs/long-single/vn", extra=["--subjects", "vn2,vn4,vn8"])]



def bs_heap_fast(ops, i, n, tier_lmax):
    j = vg({"name": "bs/heap(release build)/%s/%d" % (ops, i), "build": B("bs", "fast"), "args": ["heap", "--tier", "{tier}", "--ops", ops, "--shard", "%d/%d" % (i, n)],
            "tier_args": {"quick": ["--lmax", str(tier_lmax[0])], "thorough": ["--lmax", str(tier_lmax[1])]}, "classes": MEMORY})
    return j


# In a build WITHOUT debug assertions an out-of-slice read is not pre-empted by
# a debug_assert! panic (seeded change R3K): the same exact-heap placements
# run under valgrind in the plain release profile too.
PROPERTIES["C05"]["jobs"] += [bs_heap_fast("find,rfind,count", i, 4, (100, 300)) for i in range(4)]
PROPERTIES["C05"]["explanation"] += " The valgrind placements are repeated in a plain release build, where no debug assertion can pre-empt an out-of-slice read."



# ---- additions after the fourth round of independently seeded changes
OWNED = "finder-owned,rfinder-owned,iter-owned,riter-owned"
PROPERTIES["C17"]["jobs"] += [
    ss("e", OWNED, ["alloc"], "ss/E2/owned finders (searching must not allocate)", ["--letters", "ab"], q=["--nmax", "5", "--hmax", "12"], t=["--nmax", "7", "--hmax", "15"]),
    ss("ln", OWNED, ["alloc"], "ss/LN/owned finders"),
]
PROPERTIES["C17"]["explanation"] += " Searching and iterating with an OWNED finder (after into_owned) is probed as well: only the conversion itself may allocate."
PROPERTIES["C03"]["jobs"] += [ss("e", "iter-owned", RESULT, "ss/E2/iter-owned", ["--letters", "ab"], q=["--nmax", "5", "--hmax", "12"], t=["--nmax", "7", "--hmax", "15"])]
PROPERTIES["C04"]["jobs"] += [ss("e", "riter-owned", RESULT, "ss/E2/riter-owned", ["--letters", "ab"], q=["--nmax", "5", "--hmax", "12"], t=["--nmax", "7", "--hmax", "15"])]
PROPERTIES["C14"]["jobs"] += [bs("raw-edges", "find,rfind,count", ["panic", "crash"], name="bs/raw-edges")]
# out-of-slice reads that a debug assertion would pre-empt: plain release build
PROPERTIES["C05"]["jobs"] += [
    ss("wrong-needle", None, MEMORY, "ss/wrong-needle (release build)", profile="fast"),
    ss("equal", None, MEMORY, "ss/equal (release build)", profile="fast"),
    ss("e", ALLSUB, MEMORY, "ss/E2/guard (release build)", ["--letters", "ab", "--places", GUARD], profile="fast", q=["--nmax", "4", "--hmax", "11"], t=["--nmax", "6", "--hmax", "14"]),
    ss("e", "memmem,finder,rk,rrk,rmemmem,rfinder", MEMORY, "ss/RK/guard (release build)", ["--letters", "rk", "--places", GUARD], profile="fast", q=["--nmax", "4", "--hmax", "9"], t=["--nmax", "5", "--hmax", "10"]),
    bs("guard", "find,rfind,count", MEMORY, name="bs/guard (release build)"),
]
PROPERTIES["C05"]["jobs"][-1]["build"] = B("bs", "fast")



# ---- proactive generalisations of the seeded-change lessons
PROPERTIES["C03"]["jobs"] += [
    ss("long", "memmem,finder,finder-nopre,iter-first", RESULT, "ss/long/fwd (length-threshold sizes)"),
    ss("aliased", "memmem,finder,iter-first,twoway,rk", RESULT, "ss/aliased/fwd (needle is a sub-slice of the haystack's buffer)"),
    ss("e", FWD, RESULT, "ss/E2/fwd (release build)", ["--letters", "ab"], profile="fast", q=["--nmax", "6", "--hmax", "13"], t=["--nmax", "7", "--hmax", "15"]),
    {"name": "ss[k3]/long/fwd", "build": V("ss", "k3"), "classes": RESULT, "args": ["long", "--tier", "{tier}", "--subjects", "memmem,finder,finder-nopre"]},
    {"name": "ss[k4]/long/fwd", "build": K("ss", "k4"), "classes": RESULT, "args": ["long", "--tier", "{tier}", "--subjects", "memmem,finder"]},
]
PROPERTIES["C04"]["jobs"] += [
    ss("long", "rmemmem,rfinder,riter-first", RESULT, "ss/long/rev (length-threshold sizes)"),
    ss("aliased", "rmemmem,rfinder,rtwoway,rrk", RESULT, "ss/aliased/rev"),
    ss("e", REV, RESULT, "ss/E2/rev (release build)", ["--letters", "ab"], profile="fast", q=["--nmax", "6", "--hmax", "13"], t=["--nmax", "7", "--hmax", "15"]),
]
PROPERTIES["C11"]["jobs"] += [ss("long", PFS, RESULT, "ss/long/prefilter")]
PROPERTIES["C12"]["jobs"] += [ss("long", "twoway,rtwoway,rk,rrk,pp-sse2,pp-avx2", RESULT, "ss/long/blocks"), ss("aliased", "twoway,rk,rtwoway,rrk", RESULT, "ss/aliased/blocks")]
PROPERTIES["C10"]["jobs"] += [ss("long", ranked(["default", "zero", "identity", "needle-common"]), RESULT, "ss/long/rankers")]
PROPERTIES["C05"]["jobs"] += [ss("long", "memmem,finder,rmemmem,rfinder,pf-vn8,pp-vn8", MEMORY, "ss/long/vn-monitored")]
for pid in ("C01", "C02"):
    op = "find" if pid == "C01" else "rfind"
    PROPERTIES[pid]["jobs"] += [
        {"name": "bs/full/%s (release build)" % op, "build": B("bs", "fast"), "classes": RESULT, "args": ["full", "--tier", "{tier}", "--ops", op, "--subjects", "swar,sse2,avx2,top"],
         "tier_args": {"quick": ["--l1", "14", "--l2", "9", "--l3", "7"], "thorough": ["--l1", "18", "--l2", "11", "--l3", "9"]}},
    ]
for pid in ("C03", "C04"):
    PROPERTIES[pid]["explanation"] += " Further spaces: `long` (haystacks of 2^k-1, 2^k, 2^k+1 bytes for k = 6..12 with one occurrence at each position near either end or none, plain / with bare pair hits every 7 bytes / filled with the needle's first byte), `aliased` (needle and haystack are sub-slices of ONE buffer, every pair), and E2 again in a plain release build."


# ---- additions after the fifth round of independently seeded changes
# (R5Q: an allocation for 18 (needle length, haystack length) pairs; R5J: a
# ranker under which two DIFFERENT needle bytes tie for the lowest rank, long
# needle; R5M: quadratic finder construction for needles a^(k+1) b a^k b)
import itertools as _it
GRID_ALL = FWD + "," + REV
PROPERTIES["C17"]["jobs"] += [ss("grid", GRID_ALL, ["alloc"], "ss/grid (every pair of lengths)")]
PROPERTIES["C03"]["jobs"] += [
    ss("grid", FWD, RESULT, "ss/grid/fwd (every pair of lengths, every position)"),
    {"name": "ss[k3]/grid/fwd", "build": V("ss", "k3"), "classes": RESULT, "args": ["grid", "--tier", "{tier}", "--subjects", "memmem,finder,finder-nopre"]},
    {"name": "ss[k4]/grid/fwd", "build": K("ss", "k4"), "classes": RESULT, "args": ["grid", "--tier", "{tier}", "--subjects", "memmem,finder"]},
]
PROPERTIES["C04"]["jobs"] += [
    ss("grid", REV, RESULT, "ss/grid/rev (every pair of lengths, every position)"),
    {"name": "ss[k3]/grid/rev", "build": V("ss", "k3"), "classes": RESULT, "args": ["grid", "--tier", "{tier}", "--subjects", "rmemmem,rfinder"]},
]
PROPERTIES["C14"]["jobs"] += [ss("grid", GRID_ALL + ",twoway,rtwoway,rk,rrk,shiftor", ["panic"], "ss/grid")]
PROPERTIES["C05"]["jobs"] += [ss("grid", "memmem,finder,rmemmem,rfinder,pf-vn8,pp-vn8,pf-vn4,pp-vn4", MEMORY, "ss/grid/vn-monitored")]
PROPERTIES["C12"]["jobs"] += [ss("grid", "twoway,rtwoway,rk,rrk,shiftor,pp-sse2,pp-avx2", RESULT, "ss/grid/blocks")]
PROPERTIES["C11"]["jobs"] += [ss("grid", PFS, RESULT, "ss/grid/prefilter")]
PROPERTIES["C10"]["jobs"] += [
    ss("grid", ranked(["zero", "identity", "needle-common", "wo:0100", "wo:1001"], kinds=("ranked",)), RESULT, "ss/grid/rankers"),
    ss("ln", ranked(["wo:" + w for w in WEAK_ORDERS], kinds=("ranked",)), RESULT, "ss/LN/weak-order rankers (ties between different needle bytes)", tiers=("quick",)),
    ss("ln", ranked(["wo:" + "".join(w) for w in _it.product("0123", repeat=4)], kinds=("ranked",)), RESULT, "ss/LN/all rank functions on the needle's first 4 letters", tiers=("thorough",)),
]
for pid in ("C03", "C04", "C17"):
    PROPERTIES[pid]["explanation"] += " `grid`: EVERY pair (needle length 0..72, haystack length 0..272) (thorough: 0..140 x 0..600), needle with all-distinct bytes / period 2 (/ period 3), with no occurrence, ONE occurrence at every position, or a truncated occurrence at the end - any code gated on a combination of the two lengths is entered."
PROPERTIES["C10"]["explanation"] += " Long needles (LN) are also run under EVERY weak order of ranks on their first three letters (thorough: every function from the first four letters to four rank levels), so ties between different needle bytes occur at every position of the pair selection."
PROPERTIES["C13"]["explanation"] += " Needle construction: every run-length shape of the needle with at most 4 (5) runs of 1, K(-1), K+1 bytes over two letters at about 3000 bytes - the inputs on which the suffix and period computations branch differently."


# ---- additions after the sixth round of independently seeded changes
# (long needles at EVERY length with rare bytes at every pair of positions and
# foreign-byte cuts; value relations between needle bytes; see DESIGN 9.2)
PROPERTIES["C03"]["jobs"] += [
    ss("lgrid", FWD, RESULT, "ss/lgrid/fwd (long needles at every length)"),
    {"name": "ss[k3]/lgrid/fwd", "build": V("ss", "k3"), "classes": RESULT, "args": ["lgrid", "--tier", "{tier}", "--subjects", "memmem,finder,finder-nopre"]},
    {"name": "ss[k4]/lgrid/fwd", "build": K("ss", "k4"), "classes": RESULT, "args": ["lgrid", "--tier", "{tier}", "--subjects", "memmem,finder"]},
]
PROPERTIES["C04"]["jobs"] += [
    ss("lgrid", REV, RESULT, "ss/lgrid/rev (long needles at every length)"),
    {"name": "ss[k3]/lgrid/rev", "build": V("ss", "k3"), "classes": RESULT, "args": ["lgrid", "--tier", "{tier}", "--subjects", "rmemmem,rfinder"]},
]
for _l in ("compl", "x1", "ff", "sign"):
    PROPERTIES["C03"]["jobs"] += [
        ss("epad", FWD, RESULT, "ss/E2pad[%s]/fwd (needle bytes related by complement / xor 1 / sign bit)" % _l, ["--letters", _l], q=["--nmax", "3", "--hmax", "6"], t=["--nmax", "4", "--hmax", "9"]),
        ss("e", FWD, RESULT, "ss/E2[%s]/fwd" % _l, ["--letters", _l], q=["--nmax", "4", "--hmax", "10"], t=["--nmax", "6", "--hmax", "13"]),
    ]
    PROPERTIES["C04"]["jobs"] += [
        ss("epad", REV, RESULT, "ss/E2pad[%s]/rev" % _l, ["--letters", _l], q=["--nmax", "3", "--hmax", "6"], t=["--nmax", "4", "--hmax", "9"]),
        ss("e", REV, RESULT, "ss/E2[%s]/rev" % _l, ["--letters", _l], q=["--nmax", "4", "--hmax", "10"], t=["--nmax", "6", "--hmax", "13"]),
    ]
    PROPERTIES["C12"]["jobs"] += [ss("epad", "twoway,rtwoway,rk,rrk,shiftor,pp-sse2,pp-avx2", RESULT, "ss/E2pad[%s]/blocks" % _l, ["--letters", _l], q=["--nmax", "3", "--hmax", "6"], t=["--nmax", "4", "--hmax", "9"])]
    PROPERTIES["C11"]["jobs"] += [ss("epad", PFS, RESULT, "ss/E2pad[%s]/prefilter" % _l, ["--letters", _l], q=["--nmax", "3", "--hmax", "6"], t=["--nmax", "4", "--hmax", "9"])]
PROPERTIES["C14"]["jobs"] += [ss("lgrid", GRID_ALL + ",twoway,rtwoway,rk,rrk", ["panic"], "ss/lgrid")]
PROPERTIES["C17"]["jobs"] += [ss("lgrid", GRID_ALL + ",twoway,rtwoway,rk,rrk,pp-sse2,pp-avx2,pf-sse2,pf-avx2,pf-portable", ["alloc"], "ss/lgrid (construction and search at every needle length up to 1100)")]
PROPERTIES["C12"]["jobs"] += [ss("lgrid", "twoway,rtwoway,rk,rrk,pp-sse2,pp-avx2", RESULT, "ss/lgrid/blocks")]
PROPERTIES["C11"]["jobs"] += [ss("lgrid", "pf-sse2,pf-avx2,pf-portable", RESULT, "ss/lgrid/prefilter")]
PROPERTIES["C10"]["jobs"] += [ss("lgrid", ranked(["default", "reversed", "identity", "needle-common", "wo:0100"], kinds=("ranked",)), RESULT, "ss/lgrid/rankers")]
PROPERTIES["C05"]["jobs"] += [ss("lgrid", "pf-vn8,pp-vn8,pf-vn16,pp-vn16", MEMORY, "ss/lgrid/vn-monitored")]
for pid in ("C03", "C04", "C12", "C17"):
    PROPERTIES[pid]["explanation"] += " `lgrid`: long needles at EVERY length 33..=300 (600) - two rare bytes at every ordered pair of positions from a set bracketing the u8 index limits, the vector widths and both ends; a^i b a^j with the short side left and right; periodic and long-period needles - in haystacks with 0..=4 bytes in front of and 0..=64 behind the occurrence, with its first / last byte changed, behind a needle prefix cut by a FOREIGN byte at many positions, behind near misses; then construction + three searches at every length up to 1100 (2100)."
for pid in ("C03", "C04"):
    PROPERTIES[pid]["explanation"] += " E2 / E2pad are repeated over alphabets whose two letters are related by value: {61,9E} (complement), {60,61} (xor 1 / +1), {00,FF}, {7F,80}."
PROPERTIES["C16"]["explanation"] += " Every history is run twice: with each haystack in its own allocation, and with all haystacks copied into ONE buffer before each search (same address; three haystacks of equal length with different occurrence sets give same address AND length with different content)."
PROPERTIES["C13"]["explanation"] += " Iteration next to a long barren region (needle a^8 / ab / abcab matching back to back in one half, the other half free of needle bytes) also runs at 2^18 bytes in the quick tier: a per-match cost proportional to the barren part only shows at scale."


def warm(ks, styles=("miss",), thread=False):
    return ",".join("finder-warm:%d:%s%s" % (k, st, ":thread" if thread else "") for st in styles for k in ks)


# a fresh Finder that has already made k searches (k brackets the crate's own
# adaptive threshold of 50 prefilter calls) must answer like a fresh one; with
# `thread` the k searches are made by a second thread sharing the finder
PROPERTIES["C16"]["jobs"] += [
    ss("ln", warm(range(30, 65)) + "," + warm(range(45, 53), ("hit",)), RESULT, "ss/LN/warmed finders (k earlier searches on the same Finder)", ["--lengths", "33,40,65"], tiers=("quick",)),
    ss("ln", warm(range(0, 101)) + "," + warm(range(30, 71), ("hit",)), RESULT, "ss/LN/warmed finders (k earlier searches on the same Finder)", ["--lengths", "33,40,47,65,100"], tiers=("thorough",)),
]
PROPERTIES["C15"]["jobs"] += [
    ss("ln", warm(range(40, 53), thread=True), RESULT, "ss/LN/finder warmed by another thread", ["--lengths", "40"], tiers=("quick",)),
    ss("ln", warm(range(30, 71), ("miss", "hit"), thread=True), RESULT, "ss/LN/finder warmed by another thread", ["--lengths", "33,40,65"], tiers=("thorough",)),
]
PROPERTIES["C16"]["explanation"] += " History LENGTH as a dimension: over the long-needle space LN, a fresh Finder first makes k searches of a near miss (or of the needle itself) and then the search under test, for every k in 30..=64 (thorough 0..=100) - bracketing the crate's adaptive threshold of 50 prefilter calls; the answer must be the fresh finder's."
PROPERTIES["C15"]["explanation"] += " Call-granularity sharing: a Finder shared by reference with a second thread that makes k searches (k = 40..=52; thorough 30..=70) before the first thread searches - over the LN space; every answer must equal the answer in isolation (state that a change hoists into the shared Finder shows here even when it needs dozens of earlier calls, which no loom program reaches)."


def race_handler(job, tier, seed, workdir, drv):
    """Free-running complement of loom: the race harness on real threads,
    natively (answers) and under helgrind (unsynchronised accesses)."""
    import subprocess, re, time
    spec = {"bin": "race", "profile": "release"}
    drv.build(spec)
    exe = drv.bin_path(spec)
    t0 = time.time()
    violations, calls = [], 0
    runs = 40 if tier == "quick" else 400
    for i in range(runs):
        # odd runs are COLD: a fresh process in which every thread's first
        # constructions and calls happen concurrently (no warm-up)
        p = subprocess.run([exe, "--threads", str(2 + i % 7), "--rounds", "3"] + (["--cold", "--first", str((i // 2) % 8)] if i % 2 else []), stdout=subprocess.PIPE, stderr=subprocess.PIPE, text=True, timeout=600)
        m = re.search(r"RACE-HARNESS threads=(\d+) rounds=\d+ calls=(\d+) mismatches=(\d+)", p.stdout)
        if p.returncode < 0:
            violations.append({"class": "crash", "what": "[crash] the race harness died with signal %d on %d real threads" % (-p.returncode, 2 + i % 7), "replay_argv": None, "detail": {"class": "crash"}})
            continue
        if not m:
            drv.log(p.stderr[-2000:])
            drv.machinery("race harness produced no result line")
        calls += int(m.group(2))
        if int(m.group(3)) > 0:
            first = [l for l in p.stderr.splitlines() if l.startswith("RACE-MISMATCH")][:2]
            violations.append({"class": "wrong_result", "what": "[wrong_result] %s call(s) returned a wrong answer while %s real threads used the crate concurrently: %s" % (m.group(3), m.group(1), " | ".join(first)),
                               "replay_argv": None, "detail": {"class": "wrong_result", "threads": int(m.group(1))}})
    hg_err = ""
    for extra in ([], ["--cold"]):
        # warm: dispatch cells and lazily built state initialised before the
        # threads start; cold: every first construction / call is concurrent
        hg = subprocess.run(["valgrind", "--tool=helgrind", "-q", "--num-callers=24", exe, "--threads", "3", "--rounds", "1" if tier == "quick" else "2"] + extra,
                            stdout=subprocess.PIPE, stderr=subprocess.PIPE, text=True, timeout=3600)
        if "RACE-HARNESS" not in hg.stdout:
            drv.log(hg.stderr[-2000:])
            drv.machinery("race harness did not complete under helgrind")
        hg_err += "\n" + hg.stderr
    blocks = re.split(r"\n==\d+== \n", hg_err)
    reports = [b for b in blocks if "Possible data race" in b]
    in_crate = []
    for b in reports:
        heads = [l for l in b.splitlines() if re.search(r"==\s+at 0x", l)]
        # an access made through core's atomics (a Relaxed store is a plain
        # mov to helgrind) is not a data race
        if any(re.search(r"[/(]atomic\.rs:\d+\)", l) for l in heads):
            continue
        if re.search(r"\bmemchr::", b):
            in_crate.append(b)
    for b in in_crate[:4]:
        frames = [l.split("== ", 1)[-1].strip() for l in b.splitlines() if "memchr::" in l][:3]
        violations.append({"class": "data_race", "what": "[data_race] helgrind: unsynchronised conflicting accesses from two threads inside the crate: " + " <- ".join(frames),
                           "replay_argv": None, "detail": {"class": "data_race", "report": b[-1500:]}})
    res = {"job": job["name"], "evaluations": calls, "states": runs + 1, "distinct_nontrivial": calls,
           "histogram": {"helgrind reports (all)": len(reports), "helgrind reports with a frame in the crate and no atomic access": len(in_crate)},
           "samples": [{"harness": "2..8 real threads; every dispatched routine on 14 lengths, 10 needles x 10 haystack lengths through the free functions, fresh and SHARED Finder/FinderRev, is_equal/is_prefix/is_suffix", "runs": runs}],
           "violation_count": len(violations), "violations": violations[:8], "machinery_errors": [], "caps_hit": [],
           "extra": {"exhaustive": True, "nontrivial_rule": "every call is compared with the naive reference", "bounds": {"native_runs": runs, "of_which_cold_processes": runs // 2, "cold_first_call_sweep": "in 7 of every 8 cold processes all threads make the process's first call to each of the seven dispatched routines together (spin barrier per routine, rotating which routine is first), on haystacks whose first / last / count answers differ", "threads": "2..8", "helgrind_runs": "1 warm + 1 cold"},
                     "note": "free-running complement of the loom exploration: schedules are NOT enumerated here; helgrind's happens-before analysis flags conflicting unsynchronised accesses independently of the schedule that happened to run"}}
    for v in violations:
        res["histogram"]["violation/" + v["class"]] = res["histogram"].get("violation/" + v["class"], 0) + 1
    res["_wall_s"] = time.time() - t0
    drv.log("  job %-28s %10d evals %8d viol  %.1fs" % (job["name"], calls, len(violations), res["_wall_s"]))
    return res, None


PROPERTIES["C15"]["jobs"] += [{"name": "race harness (real threads; helgrind)", "handler": race_handler, "classes": None}]
PROPERTIES["C15"]["explanation"] += " Complement for what has no scheduling point: the same kind of bodies (every dispatched routine, free functions with different needles, one shared Finder/FinderRev) run on 2..8 REAL threads, natively (every answer compared with the reference) and once under valgrind's helgrind; a conflicting pair of unsynchronised, non-atomic accesses with a frame inside the crate (a `static mut` scratch buffer, a cache behind `unsafe impl Sync`) is a violation. The dispatch cells are warmed first in the helgrind pass - their racy first calls are loom's part; the native COLD processes make every routine's first call on all threads at once (barrier per routine, answers compared), so a stand-in routine that an installation protocol runs during detection is also seen on the real build."
PROPERTIES["C15"]["assumptions"] = [a for a in PROPERTIES["C15"]["assumptions"] if "race detector" not in a] + ["the helgrind pass is free-running (its schedules are not enumerated); it is a monitor for unsynchronised accesses that the loom exploration cannot see, not the deciding exploration"]


# allocation probe inside the history engines: next()/next_back() in every
# reachable iterator state, clone() of a borrowed substring iterator at every
# point (incl. after the prefilter has gone inert)
PROPERTIES["C17"]["jobs"] += [
    it("finder", ["alloc"], "it/finder (allocation probe on next/clone in every reachable state)"),
    it("subs", ["alloc"], "it/subs (allocation probe on every next)"),
    it("bytes", ["alloc"], "it/bytes (allocation probe on every next/next_back)"),
]
PROPERTIES["C17"]["explanation"] += " The history engines carry the probe too: every next()/next_back() in every reachable state of the byte and substring iterators, and clone() of a BORROWED find_iter/rfind_iter at every point of an iteration (also after the adaptive prefilter has gone inert) must not allocate."


# huge haystacks at page-relative start addresses (after seeded change R7A)
for pid, op in (("C01", "find"), ("C02", "rfind"), ("C07", "count")):
    PROPERTIES[pid]["jobs"] += [bs("huge", op, RESULT, name="bs/huge/%s (1..2 MiB at page-aligned and page-straddling starts)" % op)]
    PROPERTIES[pid]["explanation"] += " `huge`: haystacks of 2^20-1, 2^20, 2^20+4097, 2^21+33 bytes (thorough: also 4 and 16 MiB) starting 0, 1, 2048, 4064, 4095 bytes past a page boundary, with no match, one match at the first / last bytes and around the first and last page boundary, and pairs."


# needle / filler VALUE assignments on long haystacks (after seeded change
# R8A: a signed byte minimum in the AVX2 unrolled loop is wrong only when
# needle and filler differ in the top bit, and only from 128 bytes on)
PALETTES = ["80,01,7f,00", "7f,ff,00,80", "ff,80,e1,61", "0a,61,20,ff"]
for pid, op in (("C01", "find"), ("C02", "rfind"), ("C07", "count")):
    for pal in PALETTES:
        PROPERTIES[pid]["jobs"] += [
            bs("long-single", op, RESULT, name="bs/long-single/%s [needles,other = %s]" % (op, pal), extra=["--subjects", "swar,sse2,avx2,top", "--palette", pal, "--aligns", "9"], tiers=("quick",)),
            bs("long-single", op, RESULT, name="bs/long-single/%s [needles,other = %s]" % (op, pal), extra=["--subjects", "swar,sse2,avx2,top", "--palette", pal], tiers=("thorough",)),
        ]
    PROPERTIES[pid]["jobs"] += [bs("huge", op, RESULT, name="bs/huge/%s [needles,other = 80,01,7f,00]" % op, extra=["--palette", "80,01,7f,00"])]
    PROPERTIES[pid]["explanation"] += " The length-threshold space `long-single` is repeated under four more assignments of byte VALUES to the roles (needle >= 0x80 in zero / ASCII filler, needle < 0x80 in filler >= 0x80, needle 0x7F against 0x80): value-dependent code paths that only exist from some length on."


# guard pages at the length thresholds (after seeded change R9E: a SWAR count
# with 255-word blocks reads one word past the end only for 2040*k bytes)
PROPERTIES["C05"]["jobs"] += [bs("guard-long", "find,rfind,count", MEMORY, name="bs/guard-long (guard pages at the length thresholds)")]
PROPERTIES["C05"]["explanation"] += " `guard-long`: the real SWAR/SSE2/AVX2/top-level searchers on haystacks of V*{8..129, 255, 256, 257, 510, 512} (+0, 1, V-1) bytes, 256..4100, 8192 and 65535..65537 bytes and every length 1..=1100 (thorough 1..=4200, 1 MiB), flush against a trailing PROT_NONE page and directly after a leading one."

HOOK_COMMITS = ["ffdf165", "556bbde", "0f24165", "8fa21ee"]

ENGINES = [
    {"name": "bs", "path": "/verif/harness/checks/src/bin/bs.rs", "serves_properties": ["C01", "C02", "C05", "C07", "C14"],
     "kind_free_text": "shape-space exploration of byte search: all role strings x all start offsets x subjects {VN<2..32>, SWAR, SSE2, AVX2, top-level}, naive reference model, checked-load monitor"},
    {"name": "ss", "path": "/verif/harness/checks/src/bin/ss/", "serves_properties": ["C03", "C04", "C05", "C10", "C11", "C12", "C14", "C17", "C18", "C19"],
     "kind_free_text": "shape-space exploration of substring search and its building blocks: enumerated needle x haystack spaces, naive reference model, allocation probe, guard-page placement"},
]

ENGINES.append({"name": "it", "path": "/verif/harness/checks/src/bin/it/", "serves_properties": ["C06", "C07", "C08", "C16"],
                "kind_free_text": "explicit-state exploration (stateright 0.31) whose state is the real iterator/finder object; chain walker; history enumeration"})

ENGINES.append({"name": "loomcheck", "path": "/verif/harness/loomcheck/src/main.rs", "serves_properties": ["C15"],
                "kind_free_text": "loom exploration of all interleavings of first/subsequent calls through the real AtomicPtr dispatch cells"})

ENGINES.append({"name": "tx", "path": "/verif/harness/checks/src/bin/tx.rs", "serves_properties": ["C09"],
                "kind_free_text": "top-level-API transcript compiled against every configuration of the crate (path-manifests, RUSTFLAGS, arch-rewritten copies with emulated intrinsics)"})

ENGINES.append({"name": "wk", "path": "/verif/harness/checks/src/bin/wk.rs", "serves_properties": ["C13"],
                "kind_free_text": "adversarial instance grid, work measured with valgrind --tool=callgrind --toggle-collect on one function"})

NOT_CLAIMED = {}

NOTES = "All checks are bounded-exhaustive explorations of executions of the real code. The one free-running part is C15's complement for unsynchronised accesses that no controlled scheduler can see (real threads, natively and under helgrind); it can only add violations, the exhaustive explorations decide that a property held. bin/check exits 2 for machinery failures."
