"""Arch-rewritten scratch copies of /repo/src (see DESIGN.md §2).

prepare(variant) copies /repo/src to a scratch directory outside /repo and
/verif, applies a handful of mechanical rewrite rules so that cfg(target_arch)
/ cfg(target_feature) selection is driven by --cfg flags the harness controls,
appends the emulated intrinsics, and writes a two-package workspace (the crate
copy + the engines' sources) next to it. The copy is removed by cleanup().

Variants
  k3   x86_64 with the `sse2` target feature switched off (dispatcher's
       fallback arm, SWAR memchr, Two-Way for every needle, portable prefilter)
  k7   aarch64 + neon   (emulated intrinsics)
  k8   wasm32 + simd128 (emulated intrinsics)
  k9   "any other architecture": no arch cfg at all
  k10  aarch64 without the neon target feature
"""
import fcntl
import json
import os
import re
import shutil
import subprocess

VERIF = os.path.dirname(os.path.dirname(os.path.abspath(__file__)))
HARNESS = os.path.join(VERIF, "harness")
SCRATCH_ROOT = "/tmp/memchr-verif-copy"

VARIANTS = {
    "k3": {"arch": "x86_64", "feats": [], "rewrite_sse2": True, "features": ["x86", "alloc", "std", "vn"],
           "expect": "sse2=false,avx2=false,neon=-,simd128=-"},
    "k7": {"arch": "aarch64", "feats": ["neon"], "features": ["neon", "aarch64", "alloc", "std", "vn"],
           "expect": "sse2=-,avx2=-,neon=true,simd128=-"},
    "k8": {"arch": "wasm32", "feats": ["simd128"], "features": ["simd128", "alloc", "std", "vn"],
           "expect": "sse2=-,avx2=-,neon=-,simd128=true"},
    "k9": {"arch": None, "feats": [], "features": ["alloc", "std", "vn"],
           "expect": "sse2=-,avx2=-,neon=-,simd128=-"},
    "k10": {"arch": "aarch64", "feats": [], "features": ["aarch64", "alloc", "std", "vn"],
            "expect": "sse2=-,avx2=-,neon=false,simd128=-"},
}


PROFILE = """[workspace]
resolver = "2"
members = ["memchr", "checks"]

[profile.release]
opt-level = 2
debug = 1
debug-assertions = true
overflow-checks = true
codegen-units = 16
incremental = false
panic = "unwind"

[profile.fast]
inherits = "release"
opt-level = 3
debug-assertions = false
overflow-checks = false

[profile.release.package.stateright]
opt-level = 3
debug-assertions = false
overflow-checks = false
"""


def _mtime_for(src_path):
    """mtime given to a generated file: that of the newest of its inputs (the
    source file, this script = the rewrite rules, the emulated intrinsics), so
    that cargo rebuilds the copy exactly when one of them changed."""
    rules = max(os.stat(os.path.abspath(__file__)).st_mtime, os.stat(os.path.join(HARNESS, "emul", "verif_emul.rs")).st_mtime)
    return max(os.stat(src_path).st_mtime, rules) if src_path else rules


class MachineryError(Exception):
    pass


def _rewrite(text, v, counts):
    def sub(pat, rep, key, flags=0):
        nonlocal text
        text, n = re.subn(pat, rep, text, flags=flags)
        counts[key] = counts.get(key, 0) + n

    sub(r'target_arch = "(x86_64|aarch64|wasm32)"', r'memchr_verif_arch = "\1"', "target_arch")
    sub(r'target_feature = "(neon|simd128)"', r'memchr_verif_feat = "\1"', "target_feature")
    if v.get("rewrite_sse2"):
        sub(r'target_feature = "sse2"', 'memchr_verif_feat = "sse2"', "target_feature_sse2")
    sub(r'^[ \t]*#\[target_feature\(enable = "(neon|simd128)"\)\]\n', "", "target_feature_attr", flags=re.M)
    sub(r'core::arch::(aarch64|wasm32)', r'crate::verif_emul::\1', "core_arch")
    return text


def _stamp():
    """Digest of everything a scratch copy is derived from."""
    import hashlib
    h = hashlib.sha256()
    items = []
    for dp, _, fs in os.walk("/repo/src"):
        for f in fs:
            if f.endswith(".rs"):
                p = os.path.join(dp, f)
                st = os.stat(p)
                items.append((os.path.relpath(p, "/repo/src"), st.st_mtime_ns, st.st_size))
    for p in (os.path.abspath(__file__), os.path.join(HARNESS, "emul", "verif_emul.rs"), os.path.join(HARNESS, "Cargo.lock")):
        if os.path.exists(p):
            st = os.stat(p)
            items.append((p, st.st_mtime_ns, st.st_size))
    h.update(repr(sorted(items)).encode())
    return h.hexdigest()


def _fresh(root):
    try:
        return open(os.path.join(root, ".stamp")).read().strip() == _stamp()
    except OSError:
        return False


def _lock_for(variant):
    """Scratch copies are content addressed: the directory name carries a
    digest of everything the copy is derived from, so a copy that exists and
    is complete is never modified again. The only blocking lock is the global
    prepare lock, held for the fraction of a second it takes to write a copy -
    never while jobs run and never while waiting for another lock - so
    concurrent checks (of this or of another /verif tree) cannot deadlock or
    serialise each other. Users of a copy hold a SHARED lock on `<dir>.lock`;
    removal takes it exclusively without blocking.
    Returns (root, user_lock, prepare_lock, fresh); the caller populates the
    directory if it is not fresh and then calls `_done(prepare_lock)`."""
    import glob
    os.makedirs(SCRATCH_ROOT, exist_ok=True)
    root = os.path.join(SCRATCH_ROOT, "%s-%s" % (variant, _stamp()[:12]))
    g = open(os.path.join(SCRATCH_ROOT, ".prepare.lock"), "w")
    fcntl.flock(g, fcntl.LOCK_EX)
    # garbage collection: copies of this variant for other source states
    # that nobody uses any more
    for d in glob.glob(os.path.join(SCRATCH_ROOT, variant + "-*")):
        if d == root or not os.path.isdir(d):
            continue
        try:
            ol = open(d + ".lock", "w")
            fcntl.flock(ol, fcntl.LOCK_EX | fcntl.LOCK_NB)
        except OSError:
            continue
        shutil.rmtree(d, ignore_errors=True)
        try:
            os.remove(d + ".lock")
        except OSError:
            pass
        fcntl.flock(ol, fcntl.LOCK_UN)
    u = open(root + ".lock", "w")
    fcntl.flock(u, fcntl.LOCK_SH)
    return root, u, g, _fresh(root)


def _done(g):
    fcntl.flock(g, fcntl.LOCK_UN)
    g.close()


def prepare(variant):
    """Returns dict(dir=<workspace dir>, target_dir=..., env=..., expect=...)."""
    if variant == "kloom":
        return prepare_loom()
    v = VARIANTS[variant]
    root, lock, glock, fresh = _lock_for(variant)
    src = os.path.join(root, "memchr", "src")
    if fresh:
        _done(glock)
        return {"dir": root, "target_dir": os.path.join(HARNESS, "target-arch", variant), "expect": v["expect"], "rewrites": json.load(open(os.path.join(root, ".rewrites"))), "_lock": lock}
    # (a partial copy left by a crashed run is completed here), preserving mtimes so
    # that cargo rebuilds exactly when /repo/src changed.
    want = {}
    for dp, _, fs in os.walk("/repo/src"):
        for f in fs:
            if f.endswith(".rs"):
                p = os.path.join(dp, f)
                want[os.path.relpath(p, "/repo/src")] = p
    counts = {}
    os.makedirs(src, exist_ok=True)
    have = set()
    for dp, _, fs in os.walk(src):
        for f in fs:
            have.add(os.path.relpath(os.path.join(dp, f), src))
    for rel in have - set(want) - {"verif_emul.rs"}:
        os.remove(os.path.join(src, rel))
    for rel, p in want.items():
        text = _rewrite(open(p).read(), v, counts)
        if rel == "lib.rs":
            text += "\n#[allow(missing_docs, dead_code, non_camel_case_types)]\nmod verif_emul;\n"
        dst = os.path.join(src, rel)
        os.makedirs(os.path.dirname(dst), exist_ok=True)
        old = open(dst).read() if os.path.exists(dst) else None
        if old != text:
            open(dst, "w").write(text)
        # keep the source file's mtime: cargo then rebuilds the copy exactly
        # when the file under /repo/src changed
        mt = _mtime_for(p)
        os.utime(dst, (mt, mt))
    emul = open(os.path.join(HARNESS, "emul", "verif_emul.rs")).read()
    dst = os.path.join(src, "verif_emul.rs")
    if not os.path.exists(dst) or open(dst).read() != emul:
        open(dst, "w").write(emul)
    mt = _mtime_for(None)
    os.utime(dst, (mt, mt))
    for key in ("target_arch", "target_feature", "target_feature_attr", "core_arch"):
        if counts.get(key, 0) == 0:
            raise MachineryError("arch copy: rewrite rule %s matched nothing" % key)
    if v.get("rewrite_sse2") and counts.get("target_feature_sse2", 0) == 0:
        raise MachineryError("arch copy: sse2 rewrite matched nothing")
    # manifests
    feats = ", ".join('"%s"' % f for f in v["features"])
    files = {
        os.path.join(root, "Cargo.toml"): PROFILE,
        os.path.join(root, "memchr", "Cargo.toml"): '[package]\nname = "memchr-copy"\nversion = "0.0.0"\nedition = "2021"\n\n[lib]\nname = "memchr"\npath = "src/lib.rs"\ndoctest = false\ntest = false\n\n[features]\ndefault = ["std"]\nstd = ["alloc"]\nalloc = []\nlogging = []\n\n[lints.rust]\nunexpected_cfgs = { level = "allow" }\n',
        os.path.join(root, "checks", "Cargo.toml"): '[package]\nname = "checks-copy"\nversion = "0.0.0"\nedition = "2021"\n\n[features]\ndefault = [%s]\nvn = []\nx86 = []\nneon = []\naarch64 = []\nsimd128 = []\nalloc = []\nstd = []\n\n[dependencies]\nmemchr = { package = "memchr-copy", path = "../memchr" }\nmcore = { path = "%s/mcore" }\nserde_json = "1"\nlibc = "0.2"\nstateright = "0.31"\n\n[[bin]]\nname = "tx"\npath = "%s/checks/src/bin/tx.rs"\n\n[[bin]]\nname = "ss"\npath = "%s/checks/src/bin/ss/main.rs"\n\n[[bin]]\nname = "bs"\npath = "%s/checks/src/bin/bs.rs"\n\n[[bin]]\nname = "it"\npath = "%s/checks/src/bin/it/main.rs"\n\n[lints.rust]\nunexpected_cfgs = { level = "allow" }\n' % (feats, HARNESS, HARNESS, HARNESS, HARNESS, HARNESS),
    }
    flags = ["--cfg", "memchr_verif", "--cfg", "memchr_verif_copy"]
    if v["arch"]:
        flags += ["--cfg", 'memchr_verif_arch="%s"' % v["arch"]]
    for f in v["feats"]:
        flags += ["--cfg", 'memchr_verif_feat="%s"' % f]
    files[os.path.join(root, ".cargo", "config.toml")] = "[net]\noffline = true\n\n[build]\nrustflags = [%s]\n" % ", ".join("'%s'" % f for f in flags)
    for p, content in files.items():
        os.makedirs(os.path.dirname(p), exist_ok=True)
        if not os.path.exists(p) or open(p).read() != content:
            open(p, "w").write(content)
        mt = _mtime_for(None)
        os.utime(p, (mt, mt))
    lockfile = os.path.join(root, "Cargo.lock")
    if not os.path.exists(lockfile):
        shutil.copy(os.path.join(HARNESS, "Cargo.lock"), lockfile)
    json.dump(counts, open(os.path.join(root, ".rewrites"), "w"))
    open(os.path.join(root, ".stamp"), "w").write(_stamp())
    # the SHARED user lock stays while the copy is in use; only the last
    # user removes it
    _done(glock)
    return {
        "dir": root,
        "target_dir": os.path.join(HARNESS, "target-arch", variant),
        "expect": v["expect"],
        "rewrites": counts,
        "_lock": lock,
    }


LOOM_RULES = [
    (r'\b(core|std)::sync::atomic\b', 'loom::sync::atomic'),
    (r'\b(core|std)::hint::spin_loop\b', 'loom::thread::yield_now'),
    (r'\bstd::thread::yield_now\b', 'loom::thread::yield_now'),
    (r'\bstd::sync::(Mutex|RwLock|Condvar|Arc)\b', r'loom::sync::\1'),
]
LOOM_STATIC = re.compile(r'^(\s*)(pub(?:\([a-z]+\))? )?static (\w+): ([^=]+?) = ([^;]*);\s*$')


def _flatten_use_trees(text):
    """Rewrites `use core::{a, b::{c, d}};` / `use std::{...};` statements
    (possibly spanning lines) into one `use` statement per path, so that the
    path-based loom rules below see `core::sync::atomic::X` however the
    import was grouped."""
    out, i = [], 0
    pat = re.compile(r'^([ \t]*)((?:pub(?:\([^)]*\))?[ \t]+)?)use[ \t]+((?:core|std)::\{)', re.M)
    while True:
        m = pat.search(text, i)
        if not m:
            out.append(text[i:])
            break
        end = text.find(";", m.end())
        stmt = text[m.start(3):end]
        if end < 0 or not re.search(r'\b(sync|hint|thread|cell)\b', stmt):
            out.append(text[i:m.end()])
            i = m.end()
            continue
        stmt = re.sub(r'//[^\n]*', '', stmt)

        def parse(src, pos, prefix):
            """parses a comma separated list up to the closing brace"""
            paths, cur = [], ""
            while pos < len(src):
                c = src[pos]
                if c == "{":
                    sub, pos = parse(src, pos + 1, prefix + cur.strip())
                    paths += sub
                    cur = ""
                    continue
                if c == "}":
                    if cur.strip():
                        paths.append(prefix + cur.strip())
                    return paths, pos + 1
                if c == ",":
                    if cur.strip():
                        paths.append(prefix + cur.strip())
                    cur = ""
                else:
                    cur += c
                pos += 1
            if cur.strip():
                paths.append(prefix + cur.strip())
            return paths, pos

        root, rest = stmt.split("::{", 1)
        paths, _ = parse(rest, 0, root + "::")
        lines = []
        for pth in paths:
            pth = re.sub(r'\s+', ' ', pth)
            pth = re.sub(r'::self$', '', pth)
            lines.append("%s%suse %s;" % (m.group(1), m.group(2), pth))
        out.append(text[i:m.start()])
        out.append("\n".join(lines))
        i = end + 1
    return "".join(out)


def _join_multiline_statics(text):
    """Puts `static NAME: T = { ... };` initialisers that span lines on one
    line (comments dropped) so that the static rule below applies, and turns
    the const-array idiom `{ const Z: T = E; [Z; N] }` - which needs a const
    constructor - into `core::array::from_fn(|_| E)`."""
    pat = re.compile(r'^([ \t]*)((?:pub(?:\([a-z]+\))? )?)static (\w+): ([^\n]+?) = \{[ \t]*\n(.*?)\n\1\};[ \t]*$', re.M | re.S)

    def repl(m):
        body = re.sub(r'//[^\n]*', '', m.group(5))
        body = re.sub(r'\s+', ' ', body).strip()
        return "%s%sstatic %s: %s = { %s };" % (m.group(1), m.group(2), m.group(3), m.group(4), body)

    text = pat.sub(repl, text)
    text = re.sub(r'= \{ const (\w+): ([^=;]+?) = ([^;]+); \[\1; ([^\]]+)\] \};', r'= core::array::from_fn::<\2, { \4 }, _>(|_| \3);', text)
    return text


def prepare_loom():
    """A scratch copy of /repo/src in which every atomic / spin / std::sync
    primitive resolves to its loom counterpart, so that synchronisation a
    change introduces anywhere in the crate is visible to the model checker
    (hook H4 covers the dispatch cells; this covers everything else)."""
    variant = "kloom"
    root, lock, glock, fresh = _lock_for(variant)
    src = os.path.join(root, "memchr", "src")
    if fresh:
        _done(glock)
        return {"dir": root, "target_dir": os.path.join(HARNESS, "target-arch", variant), "expect": "", "rewrites": json.load(open(os.path.join(root, ".rewrites"))), "_lock": lock}
    counts = {"rewritten_lines": 0, "statics": 0}
    want = {}
    for dp, _, fs in os.walk("/repo/src"):
        for f in fs:
            if f.endswith(".rs"):
                p = os.path.join(dp, f)
                want[os.path.relpath(p, "/repo/src")] = p
    os.makedirs(src, exist_ok=True)
    have = set()
    for dp, _, fs in os.walk(src):
        for f in fs:
            have.add(os.path.relpath(os.path.join(dp, f), src))
    for rel in have - set(want):
        os.remove(os.path.join(src, rel))
    for rel, p in want.items():
        out = []
        prev = ""
        in_tls = False
        source = open(p).read()
        if rel != "verif.rs":
            flat = _join_multiline_statics(_flatten_use_trees(source))
            if flat != source:
                counts["use_trees_or_statics_normalised"] = counts.get("use_trees_or_statics_normalised", 0) + 1
            source = flat
        for line in source.split("\n"):
            new = line
            hook = "VERIF_DETECT_RUNS" in line or ("VERIF_DETECT_RUNS" in prev and prev.rstrip().endswith("="))
            prev = line
            if "thread_local!" in line:
                in_tls = True
            elif in_tls and line.startswith("}"):
                in_tls = False
            if not hook and "loom::" not in line and not line.lstrip().startswith("//"):
                for pat, rep in LOOM_RULES:
                    new = re.sub(pat, rep, new)
                m = LOOM_STATIC.match(new) if rel != "verif.rs" and not in_tls else None
                if m:
                    new = "%sloom::lazy_static! { %sstatic ref %s: %s = %s; }" % (m.group(1), m.group(2) or "", m.group(3), m.group(4), m.group(5))
                    counts["statics"] += 1
            if new != line:
                counts["rewritten_lines"] += 1
            out.append(new)
        text = "\n".join(out)
        if "loom::sync::" in text and rel != "arch/x86_64/memchr.rs":
            # loom's constructors are not `const fn`: constructors of types
            # that now contain loom primitives cannot be either
            text, n = re.subn(r"\bconst fn\b", "fn", text)
            counts["const_fn_stripped"] = counts.get("const_fn_stripped", 0) + n
        dst = os.path.join(src, rel)
        os.makedirs(os.path.dirname(dst), exist_ok=True)
        if not os.path.exists(dst) or open(dst).read() != text:
            open(dst, "w").write(text)
        mt = _mtime_for(p)
        os.utime(dst, (mt, mt))
    files = {
        os.path.join(root, "Cargo.toml"): PROFILE.replace('members = ["memchr", "checks"]', 'members = ["memchr", "loomcheck"]').replace("[profile.release.package.stateright]", "[profile.release.package.loom]"),
        os.path.join(root, "memchr", "Cargo.toml"): '[package]\nname = "memchr-copy"\nversion = "0.0.0"\nedition = "2021"\n\n[lib]\nname = "memchr"\npath = "src/lib.rs"\ndoctest = false\ntest = false\n\n[features]\ndefault = ["std"]\nstd = ["alloc"]\nalloc = []\nlogging = []\n\n[dependencies]\nloom = "0.7"\n\n[lints.rust]\nunexpected_cfgs = { level = "allow" }\n',
        os.path.join(root, "loomcheck", "Cargo.toml"): '[package]\nname = "loomcheck-copy"\nversion = "0.0.0"\nedition = "2021"\n\n[dependencies]\nmemchr = { package = "memchr-copy", path = "../memchr" }\nmcore = { path = "%s/mcore" }\nloom = "0.7"\nserde_json = "1"\n\n[[bin]]\nname = "loomcheck"\npath = "%s/loomcheck/src/main.rs"\n\n[lints.rust]\nunexpected_cfgs = { level = "allow" }\n' % (HARNESS, HARNESS),
        os.path.join(root, ".cargo", "config.toml"): "[net]\noffline = true\n\n[build]\nrustflags = ['--cfg', 'memchr_verif', '--cfg', 'memchr_verif=\"loom\"', '--cfg', 'memchr_verif_loomcopy']\n",
    }
    for p, content in files.items():
        os.makedirs(os.path.dirname(p), exist_ok=True)
        if not os.path.exists(p) or open(p).read() != content:
            open(p, "w").write(content)
        mt = _mtime_for(None)
        os.utime(p, (mt, mt))
    lockfile = os.path.join(root, "Cargo.lock")
    if not os.path.exists(lockfile):
        shutil.copy(os.path.join(HARNESS, "Cargo.lock"), lockfile)
    json.dump(counts, open(os.path.join(root, ".rewrites"), "w"))
    open(os.path.join(root, ".stamp"), "w").write(_stamp())
    _done(glock)
    return {"dir": root, "target_dir": os.path.join(HARNESS, "target-arch", variant), "expect": "", "rewrites": counts, "_lock": lock}


def cleanup(variant, info=None):
    """Removes the scratch copy this check used (its build output under
    /verif/harness/target-arch/<variant> is a cache and stays) unless another
    check still holds a shared lock on it; the last user removes it."""
    if not info:
        return False
    root, lock = info["dir"], info.get("_lock")
    g = open(os.path.join(SCRATCH_ROOT, ".prepare.lock"), "w")
    fcntl.flock(g, fcntl.LOCK_EX)
    try:
        if lock is not None:
            fcntl.flock(lock, fcntl.LOCK_UN)
            try:
                fcntl.flock(lock, fcntl.LOCK_EX | fcntl.LOCK_NB)
            except OSError:
                return False
        shutil.rmtree(root, ignore_errors=True)
        try:
            os.remove(root + ".lock")
        except OSError:
            pass
        if lock is not None:
            fcntl.flock(lock, fcntl.LOCK_UN)
        return True
    finally:
        _done(g)


if __name__ == "__main__":
    import sys
    info = prepare(sys.argv[1])
    print(info["dir"], info["rewrites"])
    env = dict(os.environ)
    env["CARGO_TARGET_DIR"] = info["target_dir"]
    env.pop("RUSTFLAGS", None)
    rc = subprocess.call(["cargo", "build", "--offline", "--release", "--bin", sys.argv[2] if len(sys.argv) > 2 else "tx"], cwd=info["dir"], env=env)
    sys.exit(rc)
