"""C13 handler: measures the work of each instance of the adversarial grid as
the number of instructions executed inside `measured_call` (valgrind's
callgrind, deterministic), and compares it with a declared linear budget."""
import os
import re
import subprocess
import time
from concurrent.futures import ThreadPoolExecutor

# Declared constants (fixed here, never fitted at run time). Rule: K is at
# least 2.5x the worst ratio measured on the unchanged tree over all families
# (see DESIGN.md, C13) and far below what super-linear behaviour reaches at
# the larger needle sizes of the grid.
K_PER_BYTE = 100     # instructions per byte of haystack + needle
K_PER_MATCH = 320   # instructions per match an iterator yields (call overhead)
K0 = 50000
WALL_CAP_S = 1200   # per instance; the largest budget (1e8 instructions) takes < 10 s under callgrind


def budget(n, m, matches=0):
    return K_PER_BYTE * (n + m) + K_PER_MATCH * matches + K0


def measure(wk, inst, tmpdir, idx):
    out = os.path.join(tmpdir, "cg-%d.out" % idx)
    cmd = ["valgrind", "--tool=callgrind", "--callgrind-out-file=" + out, "--toggle-collect=*measured_call*", "--dump-instr=no", "--collect-jumps=no", wk] + inst
    try:
        p = subprocess.run(cmd, stdout=subprocess.PIPE, stderr=subprocess.PIPE, text=True, timeout=WALL_CAP_S)
    except subprocess.TimeoutExpired:
        return inst, None, None, "still running under callgrind after %d s (an instance within the declared budget finishes in seconds)" % WALL_CAP_S, -1000
    if p.returncode != 0:
        return inst, None, None, "wk exited %d: %s" % (p.returncode, (p.stderr or "")[-300:]), p.returncode
    ir = None
    try:
        for line in open(out):
            if line.startswith("summary:") or line.startswith("totals:"):
                ir = int(line.split()[1])
                break
    finally:
        try:
            os.remove(out)
        except OSError:
            pass
    m = re.search(r"RESULT \S+ \S+ n=(\d+) m=(\d+) value=(\d+) matches=(\d+)", p.stdout)
    if ir is None or not m:
        return inst, None, None, "could not parse callgrind/wk output", 0
    return inst, ir, (int(m.group(1)), int(m.group(2)), int(m.group(4))), None, 0


def handler(job, tier, seed, workdir, drv):
    spec = {"bin": "wk", "profile": "fast"}
    drv.build(spec)
    wk = drv.bin_path(spec)
    t0 = time.time()
    grid = subprocess.run([wk, "list", tier], stdout=subprocess.PIPE, text=True).stdout.split("\n")
    insts = [l.split() for l in grid if l.strip()]
    only = os.environ.get("VERIF_WK_ONLY")
    if only:
        insts = [i for i in insts if only in " ".join(i)]
    with ThreadPoolExecutor(max_workers=int(os.environ.get("VERIF_THREADS", "16"))) as ex:
        results = list(ex.map(lambda t: measure(wk, t[1], workdir, t[0]), enumerate(insts)))
    hist, violations, samples, machinery_errors = {}, [], [], []
    worst = {}
    evaluated = 0
    worst_per_match = 0.0
    for inst, ir, nm, err, rc in results:
        op, fam = inst[0], inst[1]
        if err:
            if rc == -1000:
                violations.append({"class": "superlinear", "what": "[superlinear] work instance %s: %s" % (" ".join(inst), err),
                                   "replay_argv": None, "detail": {"class": "superlinear", "instance": inst}})
                hist["violation/superlinear"] = hist.get("violation/superlinear", 0) + 1
            elif rc < 0 or rc == 101:
                violations.append({"class": "crash" if rc < 0 else "panic", "what": "[panic] work instance %s crashed/panicked: %s" % (" ".join(inst), err),
                                   "replay_argv": None, "detail": {"class": "panic", "instance": inst}})
                hist["violation/panic"] = hist.get("violation/panic", 0) + 1
            else:
                machinery_errors.append("%s: %s" % (" ".join(inst), err))
            continue
        n, m, matches = nm
        evaluated += 1
        per_match = ir / float(matches) if matches > 50 else 0.0
        worst_per_match = max(worst_per_match, per_match if ir > K_PER_BYTE * (n + m) / 4 and matches * 8 >= n else 0.0)
        # per-byte work after the declared per-match allowance
        ratio = max(0, ir - K_PER_MATCH * matches) / float(n + m)
        key = "%s/%s" % (fam, op)
        if ratio > worst.get(key, (0, None))[0]:
            worst[key] = (ratio, {"instance": " ".join(inst), "n": n, "m": m, "Ir": ir, "Ir_per_byte": round(ratio, 2)})
        if ir > budget(n, m, matches):
            violations.append({
                "class": "superlinear",
                "what": "[superlinear] %s on family %s with n=%d m=%d (%d matches) executed %d instructions = %.1f per byte of haystack+needle beyond the per-match allowance; declared budget %d*(n+m)+%d*matches+%d = %d" % (
                    op, fam, n, m, matches, ir, ratio, K_PER_BYTE, K_PER_MATCH, K0, budget(n, m, matches)),
                "replay_argv": None,
                "detail": {"class": "superlinear", "instance": inst, "Ir": ir, "n": n, "m": m, "matches": matches, "budget": budget(n, m, matches)},
            })
            hist["violation/superlinear"] = hist.get("violation/superlinear", 0) + 1
    fam_worst = {}
    for key, (ratio, s) in worst.items():
        fam = key.split("/")[0]
        if ratio > fam_worst.get(fam, (0, None))[0]:
            fam_worst[fam] = (ratio, s)
    for fam, (ratio, s) in sorted(fam_worst.items()):
        hist["worst Ir per byte x100 / " + fam] = int(ratio * 100)
    samples = [s for _, s in sorted(fam_worst.values(), key=lambda t: -t[0])[:6]]
    violations.sort(key=lambda v: v["detail"].get("m", 0) if isinstance(v["detail"], dict) else 0)
    res = {
        "job": "work/callgrind", "evaluations": evaluated, "states": evaluated,
        "distinct_nontrivial": sum(1 for inst, ir, nm, err, rc in results if nm and nm[1] >= 32),
        "histogram": hist, "samples": samples, "violation_count": len(violations), "violations": violations[:12],
        "machinery_errors": machinery_errors[:5], "caps_hit": [],
        "extra": {"exhaustive": True, "nontrivial_rule": "an instance is non-trivial when its needle has at least 32 bytes (beyond the vector searcher's cap, where per-candidate confirmation cost could grow with the needle)",
                  "bounds": {"instances": len(insts), "declared_budget": "Ir <= %d*(n+m) + %d*matches + %d" % (K_PER_BYTE, K_PER_MATCH, K0),
                             "worst_Ir_per_match_on_dense_families": round(worst_per_match, 1),
                             "overall_worst_Ir_per_byte": round(max([r for r, _ in fam_worst.values()] or [0]), 2)}},
        "_wall_s": time.time() - t0,
    }
    drv.log("  job %-28s %10d evals %8d viol  %.1fs  (worst %.1f Ir/byte)" % (job["name"], evaluated, len(violations), res["_wall_s"], res["extra"]["bounds"]["overall_worst_Ir_per_byte"]))
    return res, None
