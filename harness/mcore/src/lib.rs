//! Harness core: enumerators, reference models (oracles), arenas, report
//! accumulation and deterministic sharding. Deliberately independent of the
//! memchr crate, so an edit under /repo/src never rebuilds this.

pub mod arena;
pub mod enumr;
pub mod oracle;
pub mod par;
pub mod report;

pub use report::{Report, Violation};

use std::cell::RefCell;

thread_local! {
    static LAST_PANIC: RefCell<Option<String>> = RefCell::new(None);
}

/// Installs a panic hook that records the message (and location) in a
/// thread-local instead of printing it. Exploration engines call subjects
/// under `catch_unwind` and then read the message with `take_panic_msg`.
pub fn install_quiet_panic_hook() {
    std::panic::set_hook(Box::new(|info| {
        let msg = if let Some(s) = info.payload().downcast_ref::<&str>() {
            s.to_string()
        } else if let Some(s) = info.payload().downcast_ref::<String>() {
            s.clone()
        } else {
            "<non-string panic payload>".to_string()
        };
        let loc = info
            .location()
            .map(|l| format!(" at {}:{}", l.file(), l.line()))
            .unwrap_or_default();
        LAST_PANIC.with(|p| *p.borrow_mut() = Some(format!("{}{}", msg, loc)));
    }));
}

pub fn take_panic_msg() -> String {
    LAST_PANIC
        .with(|p| p.borrow_mut().take())
        .unwrap_or_else(|| "<panic message unavailable>".to_string())
}

/// Runs `f` catching a panic; returns `Err(message)` if it unwound.
pub fn guarded<T>(f: impl FnOnce() -> T) -> Result<T, String> {
    match std::panic::catch_unwind(std::panic::AssertUnwindSafe(f)) {
        Ok(v) => Ok(v),
        Err(_) => Err(take_panic_msg()),
    }
}

pub fn hex(bytes: &[u8]) -> String {
    let mut s = String::with_capacity(bytes.len() * 2);
    for b in bytes {
        s.push_str(&format!("{:02x}", b));
    }
    s
}

pub fn unhex(s: &str) -> Vec<u8> {
    let s = s.trim();
    assert!(s.len() % 2 == 0, "odd hex length");
    (0..s.len() / 2)
        .map(|i| u8::from_str_radix(&s[2 * i..2 * i + 2], 16).expect("hex"))
        .collect()
}

/// Tiny argv helper: `--key value` pairs and bare flags.
pub struct Args {
    pub pos: Vec<String>,
    pub kv: std::collections::BTreeMap<String, String>,
}

impl Args {
    pub fn parse() -> Args {
        let mut pos = vec![];
        let mut kv = std::collections::BTreeMap::new();
        let mut it = std::env::args().skip(1).peekable();
        while let Some(a) = it.next() {
            if let Some(k) = a.strip_prefix("--") {
                let v = match it.peek() {
                    Some(n) if !n.starts_with("--") => it.next().unwrap(),
                    _ => "1".to_string(),
                };
                kv.insert(k.to_string(), v);
            } else {
                pos.push(a);
            }
        }
        Args { pos, kv }
    }
    pub fn get(&self, k: &str) -> Option<&str> {
        self.kv.get(k).map(|s| s.as_str())
    }
    pub fn str(&self, k: &str, d: &str) -> String {
        self.get(k).unwrap_or(d).to_string()
    }
    pub fn num(&self, k: &str, d: u64) -> u64 {
        self.get(k).map(|v| v.parse().expect("numeric arg")).unwrap_or(d)
    }
    pub fn flag(&self, k: &str) -> bool {
        self.kv.contains_key(k)
    }
}

pub fn threads() -> usize {
    std::env::var("VERIF_THREADS")
        .ok()
        .and_then(|v| v.parse().ok())
        .unwrap_or_else(|| {
            std::thread::available_parallelism().map(|n| n.get()).unwrap_or(4)
        })
}

/// True when a recorded panic message's location lies in the crate under
/// test: /repo/src (path-manifest builds) or an arch-rewritten scratch copy,
/// whose files cargo reports relative to the copy's workspace root as
/// `memchr/src/...`.
pub fn panic_is_in_crate(msg: &str) -> bool {
    msg.contains("/repo/src/") || msg.contains("memchr-verif-copy") || msg.contains(" at memchr/src/")
}

/// Runs an engine's main body; a panic that escapes every per-call guard is
/// printed as `ENGINE-PANIC: <message with location>` and the process exits
/// 101. The driver attributes it to the crate under test when the location is
/// inside /repo/src (or an arch copy), to the harness otherwise.
pub fn run_main(f: impl FnOnce()) {
    install_quiet_panic_hook();
    if std::panic::catch_unwind(std::panic::AssertUnwindSafe(f)).is_err() {
        eprintln!("ENGINE-PANIC: {}", take_panic_msg());
        std::process::exit(101);
    }
}
