//! Enumerators. Every space is a finite, totally ordered index range, ordered
//! simplest-first (shorter before longer, lower symbols before higher), so a
//! run is reproducible and the first counterexample is also the smallest.

/// k^len (panics on overflow).
pub fn pow(k: u64, len: u32) -> u64 {
    k.checked_pow(len).expect("space too large")
}

/// Decode `idx` as a length-`len` string over `0..k` (least significant
/// symbol first, i.e. position 0 varies fastest).
pub fn decode(mut idx: u64, k: u64, out: &mut [u8]) {
    for o in out.iter_mut() {
        *o = (idx % k) as u8;
        idx /= k;
    }
}

/// Odometer step in the same order as `decode`. Returns false on wrap.
#[inline]
pub fn step(k: u8, s: &mut [u8]) -> bool {
    for d in s.iter_mut() {
        *d += 1;
        if *d < k {
            return true;
        }
        *d = 0;
    }
    false
}

/// Calls `f(index, string)` for every index in `lo..hi` of the k-ary strings
/// of length `len`.
pub fn for_strings(
    k: u8,
    len: usize,
    lo: u64,
    hi: u64,
    mut f: impl FnMut(u64, &[u8]),
) {
    if lo >= hi {
        return;
    }
    let mut s = vec![0u8; len];
    decode(lo, k as u64, &mut s);
    let mut i = lo;
    loop {
        f(i, &s);
        i += 1;
        if i >= hi {
            break;
        }
        step(k, &mut s);
    }
}

/// All subsets of `0..n` with at most `k` elements, in order of size then
/// lexicographic. `f` gets the sorted positions.
pub fn for_sparse(n: usize, k: usize, mut f: impl FnMut(&[usize])) {
    f(&[]);
    for size in 1..=k.min(n) {
        let mut pos: Vec<usize> = (0..size).collect();
        'combos: loop {
            f(&pos);
            // Standard "next combination": find the rightmost element that
            // can still move right.
            let mut i = size;
            loop {
                if i == 0 {
                    break 'combos;
                }
                i -= 1;
                if pos[i] < n - size + i {
                    break;
                }
            }
            pos[i] += 1;
            for j in i + 1..size {
                pos[j] = pos[j - 1] + 1;
            }
        }
    }
}

/// All weak orders (ordered set partitions) of `n` items, as a rank vector
/// `rank[item] in 0..n` that uses a gap-free prefix of ranks. n<=4.
pub fn weak_orders(n: usize) -> Vec<Vec<u8>> {
    let mut out = vec![];
    let mut r = vec![0u8; n];
    let total = pow(n.max(1) as u64, n as u32);
    for idx in 0..total {
        decode(idx, n.max(1) as u64, &mut r);
        // gap-free: set of used ranks is {0..m}
        let mut used = [false; 8];
        for &x in &r {
            used[x as usize] = true;
        }
        let m = used.iter().filter(|&&u| u).count();
        if (0..m).all(|i| used[i]) {
            out.push(r.clone());
        }
    }
    out
}

#[cfg(test)]
mod tests {
    use super::*;
    #[test]
    fn sparse_counts() {
        let mut c = 0;
        for_sparse(5, 2, |_| c += 1);
        assert_eq!(c, 1 + 5 + 10);
        let mut c = 0;
        for_sparse(6, 3, |p| {
            assert!(p.windows(2).all(|w| w[0] < w[1]));
            c += 1
        });
        assert_eq!(c, 1 + 6 + 15 + 20);
        let mut c = 0;
        for_sparse(1, 3, |_| c += 1);
        assert_eq!(c, 2);
        let mut c = 0;
        for_sparse(0, 3, |_| c += 1);
        assert_eq!(c, 1);
    }
    #[test]
    fn weak() {
        assert_eq!(weak_orders(1).len(), 1);
        assert_eq!(weak_orders(2).len(), 3);
        assert_eq!(weak_orders(3).len(), 13);
    }
    #[test]
    fn strings() {
        let mut v = vec![];
        for_strings(2, 3, 0, 8, |i, s| v.push((i, s.to_vec())));
        assert_eq!(v.len(), 8);
        assert_eq!(v[5].1, vec![1, 0, 1]);
    }
}
