//! Page-aligned arenas in which haystacks/needles are *placed*: placement
//! (start alignment, what lies directly before/after the slice, whether the
//! neighbouring page is unmapped) is part of every explored shape.

use std::ptr;

pub const PAGE: usize = 4096;

/// An mmap'd region `[lead][rw ...][trail]`. In a *plain* arena lead and trail
/// are readable padding; in a *guarded* arena they are PROT_NONE, so a read of
/// even one byte before/after the RW part is a hardware fault.
pub struct Arena {
    map: *mut u8,
    map_len: usize,
    rw_len: usize,
    guarded: bool,
}

unsafe impl Send for Arena {}

impl Arena {
    fn new(rw_pages: usize, guarded: bool) -> Arena {
        let rw_len = rw_pages * PAGE;
        let map_len = rw_len + 2 * PAGE;
        unsafe {
            let map = libc::mmap(
                ptr::null_mut(),
                map_len,
                libc::PROT_READ | libc::PROT_WRITE,
                libc::MAP_PRIVATE | libc::MAP_ANONYMOUS,
                -1,
                0,
            );
            assert!(map != libc::MAP_FAILED, "mmap failed");
            let map = map as *mut u8;
            if guarded {
                assert_eq!(
                    0,
                    libc::mprotect(map as *mut _, PAGE, libc::PROT_NONE)
                );
                assert_eq!(
                    0,
                    libc::mprotect(
                        map.add(PAGE + rw_len) as *mut _,
                        PAGE,
                        libc::PROT_NONE
                    )
                );
            }
            Arena { map, map_len, rw_len, guarded }
        }
    }

    /// Readable padding pages on both sides.
    pub fn plain(rw_pages: usize) -> Arena {
        Arena::new(rw_pages, false)
    }

    /// PROT_NONE pages on both sides.
    pub fn guarded(rw_pages: usize) -> Arena {
        Arena::new(rw_pages, true)
    }

    pub fn is_guarded(&self) -> bool {
        self.guarded
    }

    /// The read/write part (page aligned, a whole number of pages).
    pub fn rw(&mut self) -> &mut [u8] {
        unsafe { std::slice::from_raw_parts_mut(self.map.add(PAGE), self.rw_len) }
    }

    pub fn rw_len(&self) -> usize {
        self.rw_len
    }

    /// Place `data` at `off` in the RW part, writing `pre` right-aligned
    /// directly before it and `post` directly after it (both clipped to the
    /// RW part), and return the placed slice. The returned slice aliases the
    /// arena; the caller must not place again while using it.
    pub fn place<'a>(
        &'a mut self,
        off: usize,
        data: &[u8],
        pre: &[u8],
        post: &[u8],
    ) -> &'a [u8] {
        let rw = self.rw();
        let n = data.len();
        assert!(off + n <= rw.len(), "placement outside arena");
        let p = pre.len().min(off);
        rw[off - p..off].copy_from_slice(&pre[pre.len() - p..]);
        let q = post.len().min(rw.len() - off - n);
        rw[off + n..off + n + q].copy_from_slice(&post[..q]);
        rw[off..off + n].copy_from_slice(data);
        &rw[off..off + n]
    }

    /// Place with single fill bytes over `margin` bytes either side.
    pub fn place_fill<'a>(
        &'a mut self,
        off: usize,
        data: &[u8],
        pre: u8,
        post: u8,
        margin: usize,
    ) -> &'a [u8] {
        let rw = self.rw();
        let n = data.len();
        assert!(off + n <= rw.len(), "placement outside arena");
        let p = margin.min(off);
        for b in &mut rw[off - p..off] {
            *b = pre;
        }
        let q = margin.min(rw.len() - off - n);
        for b in &mut rw[off + n..off + n + q] {
            *b = post;
        }
        rw[off..off + n].copy_from_slice(data);
        &rw[off..off + n]
    }

    /// Offset that puts a slice of length `n` flush against the trailing
    /// (guard) page.
    pub fn flush_end(&self, n: usize) -> usize {
        self.rw_len - n
    }
}

impl Drop for Arena {
    fn drop(&mut self) {
        unsafe {
            libc::munmap(self.map as *mut _, self.map_len);
        }
    }
}

/// Valgrind client requests (no-ops when not running under valgrind): used to
/// make the bytes in front of a heap-placed haystack inaccessible, so that a
/// read *before* an unaligned start is reported byte-exactly.
#[cfg(target_arch = "x86_64")]
#[inline(never)]
fn valgrind_request(req: usize, a1: usize, a2: usize) -> usize {
    let args: [usize; 6] = [req, a1, a2, 0, 0, 0];
    let mut result: usize = 0;
    unsafe {
        core::arch::asm!(
            "rol rdi, 3",
            "rol rdi, 13",
            "rol rdi, 61",
            "rol rdi, 51",
            "xchg rbx, rbx",
            inout("rdx") result,
            in("rax") args.as_ptr(),
            options(nostack),
        );
    }
    result
}

#[cfg(not(target_arch = "x86_64"))]
fn valgrind_request(_req: usize, _a1: usize, _a2: usize) -> usize {
    0
}

const VG_MAKE_MEM_NOACCESS: usize = 0x4d43_0000;
const VG_MAKE_MEM_DEFINED: usize = 0x4d43_0002;

pub fn vg_noaccess(p: *const u8, n: usize) {
    if n > 0 {
        valgrind_request(VG_MAKE_MEM_NOACCESS, p as usize, n);
    }
}

pub fn vg_defined(p: *const u8, n: usize) {
    if n > 0 {
        valgrind_request(VG_MAKE_MEM_DEFINED, p as usize, n);
    }
}

/// A heap block of exactly `a + data.len()` bytes with the data at offset `a`
/// and (under valgrind) the `a` bytes in front of it marked inaccessible.
pub struct HeapSlice {
    v: Vec<u8>,
    a: usize,
}

impl HeapSlice {
    pub fn empty() -> HeapSlice {
        HeapSlice { v: Vec::new(), a: 0 }
    }

    pub fn place(&mut self, a: usize, data: &[u8], fill: u8) -> &[u8] {
        // make the old prefix accessible again before the block is freed
        vg_defined(self.v.as_ptr(), self.a);
        let mut v: Vec<u8> = Vec::with_capacity(a + data.len());
        v.extend(std::iter::repeat(fill).take(a));
        v.extend_from_slice(data);
        assert_eq!(v.capacity(), a + data.len());
        vg_noaccess(v.as_ptr(), a);
        self.v = v;
        self.a = a;
        unsafe { std::slice::from_raw_parts(self.v.as_ptr().add(a), data.len()) }
    }
}

impl Drop for HeapSlice {
    fn drop(&mut self) {
        vg_defined(self.v.as_ptr(), self.a);
    }
}
