//! Accumulates what an exploration covered and what it found; serialised as
//! one JSON object per engine job, merged into evidence by bin/check.

use std::collections::BTreeMap;

use serde_json::{json, Value};

pub const MAX_VIOLATIONS_KEPT: usize = 6;
pub const MAX_SAMPLES_KEPT: usize = 6;

#[derive(Clone, Debug)]
pub struct Violation {
    /// Violation class (wrong_result, oob_load, panic, ...): properties count
    /// only the classes that bear on them. Up to MAX_VIOLATIONS_KEPT are kept
    /// per class.
    pub class: String,
    /// Ordering key: smaller = simpler case. Ties broken by description.
    pub key: u64,
    /// One-line description.
    pub what: String,
    /// Arguments for `<engine> replay ...` that re-execute exactly this case.
    pub replay_argv: Vec<String>,
    /// Structured detail (needle/haystack hex, expected, observed, ...).
    pub detail: Value,
}

#[derive(Default, Debug)]
pub struct Report {
    /// Executions of the implementation (calls / model transitions).
    pub evaluations: u64,
    /// Distinct shapes / states explored.
    pub states: u64,
    /// Distinct shapes that are non-trivial by the job's stated rule.
    pub nontrivial: u64,
    pub hist: BTreeMap<String, u64>,
    pub samples: Vec<(u64, Value)>,
    pub violations: Vec<Violation>,
    pub violation_count: u64,
    pub machinery_errors: Vec<String>,
    pub caps_hit: Vec<String>,
}

impl Report {
    pub fn bump(&mut self, key: &str) {
        self.bump_by(key, 1);
    }

    pub fn bump_by(&mut self, key: &str, n: u64) {
        if let Some(v) = self.hist.get_mut(key) {
            *v += n;
        } else {
            self.hist.insert(key.to_string(), n);
        }
    }

    /// Offer a sample; the ones with the smallest `key`s that are spread
    /// across classes are kept (deterministic).
    pub fn sample(&mut self, key: u64, v: impl FnOnce() -> Value) {
        if self.samples.len() < MAX_SAMPLES_KEPT
            || key < self.samples.last().map(|s| s.0).unwrap_or(u64::MAX)
        {
            if self.samples.iter().any(|s| s.0 == key) {
                return;
            }
            self.samples.push((key, v()));
            self.samples.sort_by_key(|s| s.0);
            self.samples.truncate(MAX_SAMPLES_KEPT);
        }
    }

    pub fn violation(&mut self, v: Violation) {
        self.violation_count += 1;
        self.bump(&format!("violation/{}", v.class));
        self.violations.push(v);
        self.trim_violations();
    }

    fn trim_violations(&mut self) {
        self.violations.sort_by(|a, b| {
            (&a.class, a.key, &a.what).cmp(&(&b.class, b.key, &b.what))
        });
        let mut kept: Vec<Violation> = vec![];
        let mut n_in_class = 0;
        for v in self.violations.drain(..) {
            if kept.last().map(|k| k.class != v.class).unwrap_or(true) {
                n_in_class = 0;
            }
            if n_in_class < MAX_VIOLATIONS_KEPT {
                kept.push(v);
            }
            n_in_class += 1;
        }
        self.violations = kept;
    }

    pub fn merge(&mut self, o: Report) {
        self.evaluations += o.evaluations;
        self.states += o.states;
        self.nontrivial += o.nontrivial;
        for (k, v) in o.hist {
            *self.hist.entry(k).or_insert(0) += v;
        }
        for (k, v) in o.samples {
            if !self.samples.iter().any(|s| s.0 == k) {
                self.samples.push((k, v));
            }
        }
        self.samples.sort_by_key(|s| s.0);
        self.samples.truncate(MAX_SAMPLES_KEPT);
        self.violation_count += o.violation_count;
        self.violations.extend(o.violations);
        self.trim_violations();
        self.machinery_errors.extend(o.machinery_errors);
        self.caps_hit.extend(o.caps_hit);
    }

    pub fn to_json(&self, job: &str, extra: Value) -> Value {
        json!({
            "job": job,
            "evaluations": self.evaluations,
            "states": self.states,
            "distinct_nontrivial": self.nontrivial,
            "histogram": self.hist,
            "samples": self.samples.iter().map(|s| s.1.clone()).collect::<Vec<_>>(),
            "violation_count": self.violation_count,
            "violations": self.violations.iter().map(|v| json!({
                "what": v.what,
                "class": v.class,
                "replay_argv": v.replay_argv,
                "detail": v.detail,
            })).collect::<Vec<_>>(),
            "machinery_errors": self.machinery_errors,
            "caps_hit": self.caps_hit,
            "extra": extra,
        })
    }

    /// Writes the job result to `path` (or stdout when `-`).
    pub fn write(&self, path: &str, job: &str, extra: Value) {
        let v = self.to_json(job, extra);
        let s = serde_json::to_string_pretty(&v).unwrap();
        if path == "-" {
            println!("{}", s);
        } else {
            std::fs::write(path, s).expect("write job result");
        }
    }
}
