//! Deterministic sharding: the index space `0..total` is cut into fixed
//! chunks that worker threads claim dynamically; results are merged in a way
//! that does not depend on which thread ran which chunk.

use std::sync::atomic::{AtomicU64, Ordering};

use crate::report::Report;

/// Runs `f(lo, hi, &mut report)` over every chunk of `0..total`.
pub fn run_chunks<F>(total: u64, chunk: u64, f: F) -> Report
where
    F: Fn(u64, u64, &mut Report) + Sync,
{
    let threads = crate::threads();
    let next = AtomicU64::new(0);
    let chunk = chunk.max(1);
    let mut merged = Report::default();
    std::thread::scope(|s| {
        let hs: Vec<_> = (0..threads)
            .map(|_| {
                s.spawn(|| {
                    let mut r = Report::default();
                    loop {
                        let lo = next.fetch_add(chunk, Ordering::Relaxed);
                        if lo >= total {
                            break;
                        }
                        let hi = (lo + chunk).min(total);
                        // A panic that escapes the per-call guards: if it
                        // was raised inside the crate under test (its
                        // location is under /repo/src or an arch copy of it)
                        // it is a finding of class "panic"; otherwise the
                        // harness itself is broken.
                        let res = std::panic::catch_unwind(std::panic::AssertUnwindSafe(|| {
                            let mut part = Report::default();
                            f(lo, hi, &mut part);
                            part
                        }));
                        match res {
                            Ok(part) => r.merge(part),
                            Err(_) => {
                                let msg = crate::take_panic_msg();
                                if crate::panic_is_in_crate(&msg) {
                                    r.violation(crate::Violation {
                                        class: "panic".into(),
                                        key: lo,
                                        what: format!("[panic] the crate panicked while the engine prepared or ran work items {}..{}: {}", lo, hi, msg),
                                        replay_argv: vec![],
                                        detail: serde_json::json!({"class": "panic", "items": [lo, hi], "message": msg}),
                                    });
                                } else {
                                    r.machinery_errors.push(format!("engine panicked in work items {}..{}: {}", lo, hi, msg));
                                }
                            }
                        }
                    }
                    r
                })
            })
            .collect();
        for h in hs {
            match h.join() {
                Ok(r) => merged.merge(r),
                Err(_) => {
                    merged.machinery_errors.push(format!(
                        "worker thread panicked outside a guarded call: {}",
                        crate::take_panic_msg()
                    ));
                }
            }
        }
    });
    merged
}

/// Runs one closure per item of `items` in parallel.
pub fn run_items<T: Sync, F>(items: &[T], f: F) -> Report
where
    F: Fn(usize, &T, &mut Report) + Sync,
{
    run_chunks(items.len() as u64, 1, |lo, hi, r| {
        for i in lo..hi {
            f(i as usize, &items[i as usize], r);
        }
    })
}
