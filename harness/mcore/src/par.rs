//! Deterministic sharding: the index space `0..total` is cut into fixed
//! chunks that worker threads claim dynamically; results are merged in a way
//! that does not depend on which thread ran which chunk.

use std::sync::atomic::{AtomicU64, Ordering};

use crate::report::Report;

/// Runs `f(lo, hi, &mut report)` over every chunk of `0..total`.
pub fn run_chunks<F>(total: u64, chunk: u64, f: F) -> Report
where
    F: Fn(u64, u64, &mut Report) + Sync,
{
    let threads = crate::threads();
    let next = AtomicU64::new(0);
    let chunk = chunk.max(1);
    let mut merged = Report::default();
    std::thread::scope(|s| {
        let hs: Vec<_> = (0..threads)
            .map(|_| {
                s.spawn(|| {
                    let mut r = Report::default();
                    loop {
                        let lo = next.fetch_add(chunk, Ordering::Relaxed);
                        if lo >= total {
                            break;
                        }
                        let hi = (lo + chunk).min(total);
                        f(lo, hi, &mut r);
                    }
                    r
                })
            })
            .collect();
        for h in hs {
            match h.join() {
                Ok(r) => merged.merge(r),
                Err(_) => {
                    merged.machinery_errors.push(format!(
                        "worker thread panicked outside a guarded call: {}",
                        crate::take_panic_msg()
                    ));
                }
            }
        }
    });
    merged
}

/// Runs one closure per item of `items` in parallel.
pub fn run_items<T: Sync, F>(items: &[T], f: F) -> Report
where
    F: Fn(usize, &T, &mut Report) + Sync,
{
    run_chunks(items.len() as u64, 1, |lo, hi, r| {
        for i in lo..hi {
            f(i as usize, &items[i as usize], r);
        }
    })
}
