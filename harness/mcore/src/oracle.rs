//! Reference models. Deliberately naive; this is the oracle for every
//! exploration, so it must be obviously right rather than fast.

pub fn find_byte(h: &[u8], pred: impl Fn(u8) -> bool) -> Option<usize> {
    h.iter().position(|&b| pred(b))
}

pub fn rfind_byte(h: &[u8], pred: impl Fn(u8) -> bool) -> Option<usize> {
    h.iter().rposition(|&b| pred(b))
}

pub fn count_byte(h: &[u8], pred: impl Fn(u8) -> bool) -> usize {
    h.iter().filter(|&&b| pred(b)).count()
}

pub fn positions(h: &[u8], pred: impl Fn(u8) -> bool) -> Vec<usize> {
    (0..h.len()).filter(|&i| pred(h[i])).collect()
}

/// Leftmost occurrence; the empty needle matches at 0.
pub fn find_sub(h: &[u8], n: &[u8]) -> Option<usize> {
    if n.is_empty() {
        return Some(0);
    }
    if n.len() > h.len() {
        return None;
    }
    (0..=h.len() - n.len()).find(|&i| &h[i..i + n.len()] == n)
}

/// Rightmost occurrence; the empty needle matches at `h.len()`.
pub fn rfind_sub(h: &[u8], n: &[u8]) -> Option<usize> {
    if n.is_empty() {
        return Some(h.len());
    }
    if n.len() > h.len() {
        return None;
    }
    (0..=h.len() - n.len()).rev().find(|&i| &h[i..i + n.len()] == n)
}

/// Greedy non-overlapping matches from the left. Empty needle: 0..=len.
pub fn find_all(h: &[u8], n: &[u8]) -> Vec<usize> {
    if n.is_empty() {
        return (0..=h.len()).collect();
    }
    let mut out = vec![];
    let mut pos = 0;
    while pos <= h.len() {
        match find_sub(&h[pos..], n) {
            None => break,
            Some(i) => {
                out.push(pos + i);
                pos += i + n.len();
            }
        }
    }
    out
}

/// Greedy non-overlapping matches from the right (mirror image). Empty
/// needle: len..=0 descending.
pub fn rfind_all(h: &[u8], n: &[u8]) -> Vec<usize> {
    if n.is_empty() {
        return (0..=h.len()).rev().collect();
    }
    let mut out = vec![];
    let mut end = h.len();
    loop {
        match rfind_sub(&h[..end], n) {
            None => break,
            Some(i) => {
                out.push(i);
                end = i;
            }
        }
    }
    out
}

#[cfg(test)]
mod tests {
    use super::*;
    #[test]
    fn basics() {
        assert_eq!(find_sub(b"", b""), Some(0));
        assert_eq!(rfind_sub(b"abc", b""), Some(3));
        assert_eq!(find_all(b"aaaa", b"aa"), vec![0, 2]);
        assert_eq!(rfind_all(b"aaaaa", b"aa"), vec![3, 1]);
        assert_eq!(find_all(b"ab", b""), vec![0, 1, 2]);
        assert_eq!(rfind_all(b"ab", b""), vec![2, 1, 0]);
        assert_eq!(find_sub(b"abcabc", b"cab"), Some(2));
        assert_eq!(rfind_sub(b"abcabc", b"bc"), Some(4));
    }
}
