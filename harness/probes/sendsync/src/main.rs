fn ss<T: Send + Sync>() {}

fn main() {
    use memchr::arch::{all, x86_64::{avx2, sse2}};
    use memchr::memmem;
    ss::<memchr::Memchr<'static>>();
    ss::<memchr::Memchr2<'static>>();
    ss::<memchr::Memchr3<'static>>();
    ss::<memmem::Finder<'static>>();
    ss::<memmem::FinderRev<'static>>();
    ss::<memmem::FindIter<'static, 'static>>();
    ss::<memmem::FindRevIter<'static, 'static>>();
    ss::<memmem::FinderBuilder>();
    ss::<all::memchr::One>();
    ss::<all::memchr::Two>();
    ss::<all::memchr::Three>();
    ss::<all::memchr::OneIter<'static, 'static>>();
    ss::<all::memchr::TwoIter<'static, 'static>>();
    ss::<all::memchr::ThreeIter<'static, 'static>>();
    ss::<sse2::memchr::One>();
    ss::<sse2::memchr::Two>();
    ss::<sse2::memchr::Three>();
    ss::<sse2::memchr::OneIter<'static, 'static>>();
    ss::<avx2::memchr::One>();
    ss::<avx2::memchr::Two>();
    ss::<avx2::memchr::Three>();
    ss::<avx2::memchr::OneIter<'static, 'static>>();
    ss::<sse2::packedpair::Finder>();
    ss::<avx2::packedpair::Finder>();
    ss::<all::packedpair::Finder>();
    ss::<all::packedpair::Pair>();
    ss::<all::twoway::Finder>();
    ss::<all::twoway::FinderRev>();
    ss::<all::rabinkarp::Finder>();
    ss::<all::rabinkarp::FinderRev>();
    ss::<all::shiftor::Finder>();
    println!("all {} public searcher/iterator types are Send + Sync", 31);
}
