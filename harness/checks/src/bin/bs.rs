//! Engine S for byte search (C01, C02, C07; load monitor for C05; panics for
//! C14): bounded-exhaustive exploration of the real One/Two/Three code.
//!
//! Every explored case is an execution of the implementation on a haystack
//! *placed* in an arena (start alignment and neighbouring bytes are part of
//! the shape), compared with the naive reference model.

use memchr::arch::all::memchr as swar;
#[cfg(feature = "neon")]
use memchr::arch::aarch64::neon::memchr as neon;
#[cfg(feature = "simd128")]
use memchr::arch::wasm32::simd128::memchr as simd128;
#[cfg(feature = "x86")]
use memchr::arch::x86_64::avx2::memchr as avx2;
#[cfg(feature = "x86")]
use memchr::arch::x86_64::sse2::memchr as sse2;
#[cfg(feature = "vn")]
use memchr::verif as mv;

use mcore::{arena::Arena, enumr, guarded, hex, oracle, par, unhex, Args, Report, Violation};
use serde_json::{json, Value};

#[derive(Clone, Copy, PartialEq, Eq, Debug)]
enum Subject {
    Vn(usize),
    Swar,
    Sse2,
    Avx2,
    Neon,
    Simd128,
    Top,
}

impl Subject {
    fn name(self) -> String {
        match self {
            Subject::Vn(n) => format!("vn{}", n),
            Subject::Swar => "swar".into(),
            Subject::Sse2 => "sse2".into(),
            Subject::Avx2 => "avx2".into(),
            Subject::Neon => "neon".into(),
            Subject::Simd128 => "simd128".into(),
            Subject::Top => "top".into(),
        }
    }
    fn parse(s: &str) -> Subject {
        match s {
            "swar" => Subject::Swar,
            "sse2" => Subject::Sse2,
            "avx2" => Subject::Avx2,
            "neon" => Subject::Neon,
            "simd128" => Subject::Simd128,
            "top" => Subject::Top,
            _ => Subject::Vn(s.strip_prefix("vn").expect("subject").parse().unwrap()),
        }
    }
    /// Width of the widest vector the subject uses.
    fn vbytes(self) -> usize {
        match self {
            Subject::Vn(n) => n,
            Subject::Swar => 8,
            Subject::Sse2 | Subject::Neon | Subject::Simd128 => 16,
            Subject::Avx2 | Subject::Top => 32,
        }
    }
    /// Shortest haystack the subject may be called with.
    fn min_len(self) -> usize {
        match self {
            Subject::Vn(n) => n,
            _ => 0,
        }
    }
    /// Number of start offsets that exhaust the alignment behaviour.
    fn aligns(self) -> usize {
        (4 * self.vbytes()).min(64)
    }
}

#[derive(Clone, Copy, PartialEq, Eq, Debug)]
enum Op {
    Find,
    Rfind,
    Count,
}

impl Op {
    fn name(self) -> &'static str {
        match self {
            Op::Find => "find",
            Op::Rfind => "rfind",
            Op::Count => "count",
        }
    }
    fn parse(s: &str) -> Op {
        match s {
            "find" => Op::Find,
            "rfind" => Op::Rfind,
            "count" => Op::Count,
            _ => panic!("op"),
        }
    }
}

#[derive(Clone, Copy, PartialEq, Eq, Debug)]
enum Res {
    Pos(Option<usize>),
    Cnt(usize),
}

#[cfg(not(feature = "vn"))]
mod mv {
    #[derive(Clone, Copy, Debug)]
    pub struct LoadStats {
        pub loads: u64,
        pub aligned_loads: u64,
        pub oob: u64,
        pub misaligned: u64,
        pub first_bad: Option<(isize, usize)>,
    }
}

struct CallOut {
    res: Res,
    stats: Option<mv::LoadStats>,
    /// Set when the raw-pointer form misbehaved (pointer outside
    /// [start,end) or disagreeing with the slice form).
    raw_problem: Option<String>,
}

fn pos2(
    slice: Option<usize>,
    raw: Option<*const u8>,
    s: *const u8,
    e: *const u8,
) -> CallOut {
    let mut raw_problem = None;
    let rawi = match raw {
        None => None,
        Some(p) => {
            if p < s || p >= e {
                raw_problem = Some(format!(
                    "raw form returned a pointer outside [start,end): offset {}",
                    (p as isize) - (s as isize)
                ));
            }
            Some(((p as isize) - (s as isize)) as usize)
        }
    };
    if raw_problem.is_none() && rawi != slice {
        raw_problem =
            Some(format!("raw form returned {:?} but slice form {:?}", rawi, slice));
    }
    CallOut { res: Res::Pos(slice), stats: None, raw_problem }
}

fn cnt2(slice: usize, raw: usize) -> CallOut {
    let raw_problem = if slice != raw {
        Some(format!("count_raw returned {} but count {}", raw, slice))
    } else {
        None
    };
    CallOut { res: Res::Cnt(slice), stats: None, raw_problem }
}

macro_rules! some {
    (opt, $e:expr) => {
        $e.expect("ISA searcher unavailable on this host")
    };
    (plain, $e:expr) => {
        $e
    };
}

macro_rules! real_subject {
    ($fname:ident, $m:ident, $mode:ident) => {
        fn $fname(k: u8, op: Op, nd: [u8; 3], hay: &[u8]) -> CallOut {
            let s = hay.as_ptr();
            let e = unsafe { s.add(hay.len()) };
            unsafe {
                match (k, op) {
                    (1, Op::Find) => {
                        let f = some!($mode, $m::One::new(nd[0]));
                        pos2(f.find(hay), f.find_raw(s, e), s, e)
                    }
                    (1, Op::Rfind) => {
                        let f = some!($mode, $m::One::new(nd[0]));
                        pos2(f.rfind(hay), f.rfind_raw(s, e), s, e)
                    }
                    (1, Op::Count) => {
                        let f = some!($mode, $m::One::new(nd[0]));
                        let it = f.iter(hay).count();
                        let mut o = cnt2(f.count(hay), f.count_raw(s, e));
                        if o.raw_problem.is_none() && it != f.count(hay) {
                            o.raw_problem = Some(format!(
                                "iter().count() returned {} but count {}",
                                it,
                                f.count(hay)
                            ));
                        }
                        o
                    }
                    (2, Op::Find) => {
                        let f = some!($mode, $m::Two::new(nd[0], nd[1]));
                        pos2(f.find(hay), f.find_raw(s, e), s, e)
                    }
                    (2, Op::Rfind) => {
                        let f = some!($mode, $m::Two::new(nd[0], nd[1]));
                        pos2(f.rfind(hay), f.rfind_raw(s, e), s, e)
                    }
                    (3, Op::Find) => {
                        let f = some!($mode, $m::Three::new(nd[0], nd[1], nd[2]));
                        pos2(f.find(hay), f.find_raw(s, e), s, e)
                    }
                    (3, Op::Rfind) => {
                        let f = some!($mode, $m::Three::new(nd[0], nd[1], nd[2]));
                        pos2(f.rfind(hay), f.rfind_raw(s, e), s, e)
                    }
                    _ => unreachable!("unsupported (k, op)"),
                }
            }
        }
    };
}

real_subject!(call_swar, swar, plain);
#[cfg(feature = "x86")]
real_subject!(call_sse2, sse2, opt);
#[cfg(feature = "x86")]
real_subject!(call_avx2, avx2, opt);
#[cfg(feature = "neon")]
real_subject!(call_neon, neon, opt);
#[cfg(feature = "simd128")]
real_subject!(call_simd128, simd128, opt);

fn call_top(k: u8, op: Op, nd: [u8; 3], hay: &[u8]) -> CallOut {
    let r = match (k, op) {
        (1, Op::Find) => Res::Pos(memchr::memchr(nd[0], hay)),
        (1, Op::Rfind) => Res::Pos(memchr::memrchr(nd[0], hay)),
        (1, Op::Count) => Res::Cnt(memchr::memchr_iter(nd[0], hay).count()),
        (2, Op::Find) => Res::Pos(memchr::memchr2(nd[0], nd[1], hay)),
        (2, Op::Rfind) => Res::Pos(memchr::memrchr2(nd[0], nd[1], hay)),
        (3, Op::Find) => Res::Pos(memchr::memchr3(nd[0], nd[1], nd[2], hay)),
        (3, Op::Rfind) => Res::Pos(memchr::memrchr3(nd[0], nd[1], nd[2], hay)),
        _ => unreachable!(),
    };
    CallOut { res: r, stats: None, raw_problem: None }
}

#[cfg(feature = "vn")]
fn call_vn<const N: usize>(k: u8, op: Op, nd: [u8; 3], hay: &[u8]) -> CallOut {
    assert!(hay.len() >= N);
    let s = hay.as_ptr();
    let e = unsafe { s.add(hay.len()) };
    mv::set_region(s, e);
    let raw = unsafe {
        match (k, op) {
            (1, Op::Find) => Ok(mv::One::<N>::new(nd[0]).find_raw(s, e)),
            (1, Op::Rfind) => Ok(mv::One::<N>::new(nd[0]).rfind_raw(s, e)),
            (1, Op::Count) => Err(mv::One::<N>::new(nd[0]).count_raw(s, e)),
            (2, Op::Find) => Ok(mv::Two::<N>::new(nd[0], nd[1]).find_raw(s, e)),
            (2, Op::Rfind) => Ok(mv::Two::<N>::new(nd[0], nd[1]).rfind_raw(s, e)),
            (3, Op::Find) => Ok(mv::Three::<N>::new(nd[0], nd[1], nd[2]).find_raw(s, e)),
            (3, Op::Rfind) => Ok(mv::Three::<N>::new(nd[0], nd[1], nd[2]).rfind_raw(s, e)),
            _ => unreachable!(),
        }
    };
    let stats = mv::take_stats();
    let mut out = match raw {
        Err(c) => CallOut { res: Res::Cnt(c), stats: None, raw_problem: None },
        Ok(None) => CallOut { res: Res::Pos(None), stats: None, raw_problem: None },
        Ok(Some(p)) => {
            let off = (p as isize) - (s as isize);
            let mut o = CallOut {
                res: Res::Pos(Some(off as usize)),
                stats: None,
                raw_problem: None,
            };
            if p < s || p >= e {
                o.raw_problem = Some(format!(
                    "raw form returned a pointer outside [start,end): offset {}",
                    off
                ));
            }
            o
        }
    };
    out.stats = Some(stats);
    out
}

/// In builds against emulated NEON / simd128 intrinsics every vector load of
/// the real ISA modules reports to the load monitor, so the haystack is
/// registered as the only readable region for every subject.
#[cfg(all(feature = "vn", any(feature = "neon", feature = "simd128")))]
fn call(subject: Subject, k: u8, op: Op, nd: [u8; 3], hay: &[u8]) -> CallOut {
    if matches!(subject, Subject::Vn(_)) {
        return call_inner(subject, k, op, nd, hay);
    }
    let s = hay.as_ptr();
    mv::set_region(s, unsafe { s.add(hay.len()) });
    let mut out = call_inner(subject, k, op, nd, hay);
    let st = mv::take_stats();
    if st.loads > 0 {
        out.stats = Some(st);
    }
    out
}

#[cfg(not(all(feature = "vn", any(feature = "neon", feature = "simd128"))))]
fn call(subject: Subject, k: u8, op: Op, nd: [u8; 3], hay: &[u8]) -> CallOut {
    call_inner(subject, k, op, nd, hay)
}

fn call_inner(subject: Subject, k: u8, op: Op, nd: [u8; 3], hay: &[u8]) -> CallOut {
    match subject {
        #[cfg(feature = "vn")]
        Subject::Vn(2) => call_vn::<2>(k, op, nd, hay),
        #[cfg(feature = "vn")]
        Subject::Vn(4) => call_vn::<4>(k, op, nd, hay),
        #[cfg(feature = "vn")]
        Subject::Vn(8) => call_vn::<8>(k, op, nd, hay),
        #[cfg(feature = "vn")]
        Subject::Vn(16) => call_vn::<16>(k, op, nd, hay),
        #[cfg(feature = "vn")]
        Subject::Vn(32) => call_vn::<32>(k, op, nd, hay),
        Subject::Swar => call_swar(k, op, nd, hay),
        #[cfg(feature = "x86")]
        Subject::Sse2 => call_sse2(k, op, nd, hay),
        #[cfg(feature = "x86")]
        Subject::Avx2 => call_avx2(k, op, nd, hay),
        #[cfg(feature = "neon")]
        Subject::Neon => call_neon(k, op, nd, hay),
        #[cfg(feature = "simd128")]
        Subject::Simd128 => call_simd128(k, op, nd, hay),
        Subject::Top => call_top(k, op, nd, hay),
        #[allow(unreachable_patterns)]
        other => panic!("subject {:?} is not available in this build configuration", other),
    }
}

fn expected(k: u8, op: Op, nd: [u8; 3], hay: &[u8]) -> Res {
    let pred = |b: u8| match k {
        1 => b == nd[0],
        2 => b == nd[0] || b == nd[1],
        _ => b == nd[0] || b == nd[1] || b == nd[2],
    };
    match op {
        Op::Find => Res::Pos(oracle::find_byte(hay, pred)),
        Op::Rfind => Res::Pos(oracle::rfind_byte(hay, pred)),
        Op::Count => Res::Cnt(oracle::count_byte(hay, pred)),
    }
}

/// Where the haystack is put.
#[derive(Clone, Copy, PartialEq, Eq, Debug)]
enum Place {
    /// RW arena, offset `BASE + a`, neighbours filled with the needle byte.
    Plain,
    /// Flush against the trailing PROT_NONE page.
    GuardEnd,
    /// Starting directly after the leading PROT_NONE page.
    GuardStart,
    /// A heap block of exactly `a + len` bytes, haystack at offset `a`
    /// (for valgrind memcheck: any read past the end, and with a == 0 any
    /// read before the start, leaves the block).
    Heap,
}

impl Place {
    fn name(self) -> &'static str {
        match self {
            Place::Plain => "plain",
            Place::GuardEnd => "guard-end",
            Place::GuardStart => "guard-start",
            Place::Heap => "heap",
        }
    }
    fn parse(s: &str) -> Place {
        match s {
            "plain" => Place::Plain,
            "guard-end" => Place::GuardEnd,
            "guard-start" => Place::GuardStart,
            "heap" => Place::Heap,
            _ => panic!("place"),
        }
    }
}

const BASE: usize = 1024;
const MARGIN: usize = 96;

struct Ctx {
    plain: Arena,
    guard: Arena,
    heap: mcore::arena::HeapSlice,
}

impl Ctx {
    fn new() -> Ctx {
        Ctx { plain: Arena::plain(4), guard: Arena::guarded(1), heap: mcore::arena::HeapSlice::empty() }
    }
    fn place(&mut self, place: Place, a: usize, data: &[u8], fill: u8) -> &[u8] {
        match place {
            Place::Plain => self.plain.place_fill(BASE + a, data, fill, fill, MARGIN),
            Place::GuardEnd => {
                let off = self.guard.flush_end(data.len());
                self.guard.place_fill(off, data, fill, fill, MARGIN)
            }
            Place::GuardStart => self.guard.place_fill(0, data, fill, fill, MARGIN),
            Place::Heap => self.heap.place(a, data, fill),
        }
    }
}

/// One shape = (needles, haystack bytes, placement). Runs every requested
/// (subject, op) on it and checks each against the reference model.
#[allow(clippy::too_many_arguments)]
fn check_shape(
    ctx: &mut Ctx,
    r: &mut Report,
    subjects: &[Subject],
    k: u8,
    ops: &[Op],
    nd: [u8; 3],
    data: &[u8],
    place: Place,
    a: usize,
    order: u64,
    fill: u8,
) {
    let hay: &[u8] = ctx.place(place, a, data, fill);
    // SAFETY of aliasing: `hay` borrows ctx's arena; nothing below touches ctx.
    let len = hay.len();
    r.states += 1;
    for &op in ops {
        if op == Op::Count && k != 1 {
            continue;
        }
        let exp = expected(k, op, nd, hay);
        for &subject in subjects {
            if len < subject.min_len() {
                continue;
            }
            r.evaluations += 1;
            let got = guarded(|| call(subject, k, op, nd, hay));
            let v = subject.vbytes();
            let mut problem: Option<(String, String)> = None; // (class, what)
            let mut region = "panic";
            match &got {
                Err(msg) => {
                    problem = Some(("panic".into(), format!("panicked: {}", msg)));
                }
                Ok(out) => {
                    if out.res != exp {
                        problem = Some((
                            "wrong_result".into(),
                            format!("returned {:?}, reference {:?}", out.res, exp),
                        ));
                    } else if let Some(p) = &out.raw_problem {
                        problem = Some(("raw_form".into(), p.clone()));
                    }
                    if let Some(st) = &out.stats {
                        if st.oob > 0 || st.misaligned > 0 {
                            let (boff, bn) = st.first_bad.unwrap();
                            let cls = if st.oob > 0 { "oob_load" } else { "misaligned_load" };
                            // A load violation is reported even when the
                            // answer is right (that is C05's point).
                            let what = format!(
                                "{} vector load(s) outside the haystack / {} misaligned aligned load(s); first: {} bytes at haystack offset {} (haystack length {})",
                                st.oob, st.misaligned, bn, boff, len
                            );
                            if problem.is_none() {
                                problem = Some((cls.into(), what));
                            } else {
                                r.bump(&format!("also/{}", cls));
                            }
                        }
                        region = if !matches!(subject, Subject::Vn(_)) {
                            "emulated-isa/monitored"
                        } else if st.aligned_loads > 0 {
                            "vn/unrolled-loop"
                        } else if st.loads <= 1 {
                            "vn/single-chunk"
                        } else {
                            "vn/vector-loop-or-tail"
                        };
                    } else {
                        region = match (op, out.res) {
                            (_, Res::Pos(None)) => "real/none",
                            (Op::Find, Res::Pos(Some(i))) if i < v => "real/first-chunk",
                            (Op::Rfind, Res::Pos(Some(i))) if i + v >= len => "real/first-chunk",
                            (_, Res::Pos(Some(_))) => "real/beyond-first-chunk",
                            (_, Res::Cnt(_)) => "real/count",
                        };
                    }
                }
            }
            r.bump(&format!("calls/{}", subject.name()));
            r.bump(&format!("region/{}", region));
            let nontrivial = len >= v
                && match (op, exp) {
                    (Op::Find, Res::Pos(Some(i))) => i >= v,
                    (Op::Rfind, Res::Pos(Some(i))) => i + v < len,
                    (_, Res::Pos(None)) => true,
                    (_, Res::Cnt(_)) => len >= 2 * v,
                    (Op::Count, Res::Pos(_)) => false,
                };
            if nontrivial {
                r.nontrivial += 1;
            }
            let argv = || -> Vec<String> {
                vec![
                    "replay".into(),
                    "--subject".into(),
                    subject.name(),
                    "--k".into(),
                    k.to_string(),
                    "--op".into(),
                    op.name().into(),
                    "--needles".into(),
                    hex(&nd),
                    "--hay".into(),
                    if data.is_empty() { "-".into() } else { hex(data) },
                    "--off".into(),
                    a.to_string(),
                    "--place".into(),
                    place.name().into(),
                    "--fill".into(),
                    format!("{:02x}", fill),
                ]
            };
            if let Some((class, what)) = problem {
                r.violation(Violation {
                    class: class.clone(),
                    key: ((len as u64) << 32) | (order & 0xffff_ffff),
                    what: format!(
                        "[{}] {} {}{} len={} off={} {}: {}",
                        class,
                        subject.name(),
                        op.name(),
                        k,
                        len,
                        a,
                        place.name(),
                        what
                    ),
                    replay_argv: argv(),
                    detail: json!({
                        "class": class, "subject": subject.name(), "op": op.name(), "k": k,
                        "needles": hex(&nd[..k as usize]), "haystack": hex(data),
                        "offset": a, "place": place.name(), "neighbour_fill": fill,
                        "expected": format!("{:?}", exp),
                    }),
                });
            } else if nontrivial {
                r.sample(((len as u64) << 40) | ((a as u64) << 32) | (order & 0xffff_ffff), || {
                    json!({
                        "subject": subject.name(), "op": format!("{}{}", op.name(), k),
                        "needles": hex(&nd[..k as usize]), "haystack": hex(data),
                        "offset": a, "place": place.name(),
                        "result": format!("{:?}", exp), "region": region,
                    })
                });
            }
        }
    }
}

fn roles_to_bytes(roles: &[u8], other: u8, nd: [u8; 3], out: &mut Vec<u8>) {
    out.clear();
    out.extend(roles.iter().map(|&r| match r {
        0 => other,
        1 => nd[0],
        2 => nd[1],
        _ => nd[2],
    }));
}

/// Full(Σk, len): every string over {other, n1..nk} of length `len`, at every
/// start offset.
#[allow(clippy::too_many_arguments)]
fn run_full(
    total: &mut Report,
    subjects: &[Subject],
    k: u8,
    ops: &[Op],
    lens: std::ops::RangeInclusive<usize>,
    aligns: usize,
    nd: [u8; 3],
    other: u8,
) {
    let real: Vec<Subject> = subjects.iter().copied().filter(|s| !matches!(s, Subject::Vn(_))).collect();
    for len in lens {
        let n = enumr::pow(k as u64 + 1, len as u32);
        let rep = par::run_chunks(n, 2048, |lo, hi, r| {
            let mut ctx = Ctx::new();
            let mut data = Vec::with_capacity(len);
            enumr::for_strings(k + 1, len, lo, hi, |idx, roles| {
                roles_to_bytes(roles, other, nd, &mut data);
                for a in 0..aligns {
                    // neighbours = needle byte (an out-of-slice read that is
                    // USED turns into a wrong answer) ...
                    check_shape(&mut ctx, r, subjects, k, ops, nd, &data, Place::Plain, a, idx, nd[0]);
                    // ... and neighbours = filler (a search that wrongly
                    // DEPENDS on seeing a needle outside the slice fails).
                    // VN loads are monitored exactly, so only the real code
                    // needs the second placement.
                    if !real.is_empty() {
                        check_shape(&mut ctx, r, &real, k, ops, nd, &data, Place::Plain, a, idx, other);
                    }
                }
            });
        });
        total.merge(rep);
    }
}

/// Sparse(len): every set of at most `ks` match positions (each role
/// assignment), and the complement of every set of at most `kd` positions
/// (dense haystacks), optionally restricted to pairs at the given deltas.
#[allow(clippy::too_many_arguments)]
fn run_sparse(
    total: &mut Report,
    subjects: &[Subject],
    k: u8,
    ops: &[Op],
    lens: &[usize],
    aligns: usize,
    ks: usize,
    kd: usize,
    pair_deltas: &[usize],
    places: &[Place],
    nd: [u8; 3],
    other: u8,
) {
    let real: Vec<Subject> = subjects.iter().copied().filter(|s| !matches!(s, Subject::Vn(_))).collect();
    let rep = par::run_items(lens, |_, &len, r| {
        let mut ctx = Ctx::new();
        let mut data = vec![0u8; len];
        let mut order = 0u64;
        let mut run = |data: &[u8], r: &mut Report, ctx: &mut Ctx, order: u64| {
            for &place in places {
                let al = if place == Place::GuardEnd || place == Place::GuardStart { 1 } else { aligns };
                for a in 0..al {
                    check_shape(ctx, r, subjects, k, ops, nd, data, place, a, order, nd[0]);
                    if !real.is_empty() && place != Place::GuardStart {
                        check_shape(ctx, r, &real, k, ops, nd, data, place, a, order, other);
                    }
                }
            }
        };
        // sparse: background other, matches at the chosen positions
        let mut sparse_set = |pos: &[usize], r: &mut Report, ctx: &mut Ctx| {
            // every assignment of roles 1..=k to the positions
            let n_assign = enumr::pow(k as u64, pos.len() as u32);
            let mut roles = vec![0u8; pos.len()];
            for ai in 0..n_assign {
                enumr::decode(ai, k as u64, &mut roles);
                for b in data.iter_mut() {
                    *b = other;
                }
                for (j, &p) in pos.iter().enumerate() {
                    data[p] = nd[roles[j] as usize];
                }
                order += 1;
                run(&data, r, ctx, order);
            }
        };
        enumr::for_sparse(len, ks, |pos| sparse_set(pos, r, &mut ctx));
        for &d in pair_deltas {
            if ks >= 2 {
                break;
            }
            for p in 0..len {
                if p + d < len && d > 0 {
                    sparse_set(&[p, p + d], r, &mut ctx);
                }
            }
        }
        // dense: background = needles (roles cycle), holes at the positions
        let mut order2 = 1u64 << 30;
        enumr::for_sparse(len, kd, |pos| {
            for (i, b) in data.iter_mut().enumerate() {
                *b = nd[i % k as usize];
            }
            for &p in pos {
                data[p] = other;
            }
            order2 += 1;
            run(&data, r, &mut ctx, order2);
        });
    });
    total.merge(rep);
}

/// SWAR value space: every 8-byte word whose bytes are `n ^ d` for d in the
/// XOR-difference alphabet, through find and rfind of One (and Two/Three with
/// the remaining needles set to a byte that never occurs).
fn run_swar_values(total: &mut Report, ops: &[Op], needles: &[u8], deep: bool) {
    const D: [u8; 7] = [0x00, 0x01, 0x7f, 0x80, 0x81, 0xfe, 0xff];
    let n = enumr::pow(7, 8);
    let rep = par::run_chunks(n, 8192, |lo, hi, r| {
        let mut ctx = Ctx::new();
        let mut data = [0u8; 8];
        enumr::for_strings(7, 8, lo, hi, |idx, ds| {
            for &nb in needles {
                for i in 0..8 {
                    data[i] = nb ^ D[ds[i] as usize];
                }
                let nd = [nb, nb, nb];
                check_shape(&mut ctx, r, &[Subject::Swar], 1, ops, nd, &data, Place::Plain, 0, idx, nb);
                if deep {
                    check_shape(&mut ctx, r, &[Subject::Swar], 2, ops, nd, &data, Place::Plain, 0, idx, nb);
                    check_shape(&mut ctx, r, &[Subject::Swar], 3, ops, nd, &data, Place::Plain, 0, idx, nb);
                }
            }
        });
    });
    total.merge(rep);
}

/// Raw forms with start == end and start > end must return None / 0.
fn run_raw_edges(total: &mut Report) {
    let mut r = Report::default();
    let mut ctx = Ctx::new();
    let data = [7u8; 64];
    let hay = ctx.place(Place::Plain, 3, &data, 7);
    let s = hay.as_ptr();
    macro_rules! edge {
        ($name:expr, $m:ident, $mode:ident) => {
            for (what, a, b) in [("start==end", 5usize, 5usize), ("start>end", 9, 5), ("start>end by 40", 45, 5)] {
                let (ps, pe) = unsafe { (s.add(a), s.add(b)) };
                let one = some!($mode, $m::One::new(7));
                let two = some!($mode, $m::Two::new(7, 7));
                let three = some!($mode, $m::Three::new(7, 7, 7));
                let outs: Vec<(String, bool)> = unsafe {
                    vec![
                        ("One::find_raw".into(), one.find_raw(ps, pe).is_none()),
                        ("One::rfind_raw".into(), one.rfind_raw(ps, pe).is_none()),
                        ("One::count_raw".into(), one.count_raw(ps, pe) == 0),
                        ("Two::find_raw".into(), two.find_raw(ps, pe).is_none()),
                        ("Two::rfind_raw".into(), two.rfind_raw(ps, pe).is_none()),
                        ("Three::find_raw".into(), three.find_raw(ps, pe).is_none()),
                        ("Three::rfind_raw".into(), three.rfind_raw(ps, pe).is_none()),
                    ]
                };
                for (f, ok) in outs {
                    r.evaluations += 1;
                    r.states += 1;
                    r.nontrivial += 1;
                    r.bump("raw-edge");
                    if !ok {
                        r.violation(Violation {
                            class: "wrong_result".into(),
                            key: 0,
                            what: format!("[wrong_result] {} {} with {} did not return None/0", $name, f, what),
                            replay_argv: vec!["raw-edges".into()],
                            detail: json!({"class": "wrong_result", "subject": $name, "fn": f, "case": what}),
                        });
                    }
                }
            }
        };
    }
    edge!("swar", swar, plain);
    #[cfg(feature = "x86")]
    if sse2::One::is_available() {
        edge!("sse2", sse2, opt);
    }
    #[cfg(feature = "x86")]
    if avx2::One::is_available() {
        edge!("avx2", avx2, opt);
    }
    #[cfg(feature = "neon")]
    edge!("neon", neon, opt);
    #[cfg(feature = "simd128")]
    edge!("simd128", simd128, opt);
    r.sample(0, || json!({"raw-edge": "start==end, start>end (by 4 and by 40 bytes) through One/Two/Three::{find_raw,rfind_raw,count_raw} of swar, sse2, avx2"}));
    total.merge(r);
}

fn parse_ops(s: &str) -> Vec<Op> {
    s.split(',').map(Op::parse).collect()
}

fn main() {
    mcore::run_main(real_main);
}

fn real_main() {
    let args = Args::parse();
    let mode = args.pos.first().map(|s| s.as_str()).unwrap_or("help").to_string();
    let out = args.str("out", "-");
    let t0 = std::time::Instant::now();

    if mode == "replay" {
        let subject = Subject::parse(&args.str("subject", "top"));
        let k = args.num("k", 1) as u8;
        let op = Op::parse(&args.str("op", "find"));
        let ndv = unhex(&args.str("needles", "000000"));
        let mut nd = [0u8; 3];
        for (i, b) in ndv.iter().take(3).enumerate() {
            nd[i] = *b;
        }
        let h = args.str("hay", "-");
        let data = if h == "-" { vec![] } else { unhex(&h) };
        let a = args.num("off", 0) as usize;
        let place = Place::parse(&args.str("place", "plain"));
        let fill = u8::from_str_radix(&args.str("fill", &format!("{:02x}", nd[0])), 16).unwrap();
        let mut outs = vec![];
        for _ in 0..2 {
            let mut ctx = Ctx::new();
            let mut r = Report::default();
            check_shape(&mut ctx, &mut r, &[subject], k, &[op], nd, &data, place, a, 0, fill);
            outs.push(r);
        }
        assert_eq!(
            outs[0].violation_count, outs[1].violation_count,
            "replay is not deterministic"
        );
        let r = outs.pop().unwrap();
        for v in &r.violations {
            println!("REPLAY-VIOLATION {}", v.what);
        }
        if r.violation_count == 0 {
            println!("REPLAY-OK no violation on this case");
        }
        std::process::exit(if r.violation_count > 0 { 1 } else { 0 });
    }

    let ops = parse_ops(&args.str("ops", "find,rfind,count"));
    let thorough = args.str("tier", "quick") == "thorough";
    let mut total = Report::default();
    let mut bounds = serde_json::Map::new();
    // the byte values playing the roles "needle 1..3" and "any other byte";
    // --palette n1,n2,n3,other (hex) selects another assignment, e.g. one in
    // which needle and filler differ in the top bit
    let (nd, other): ([u8; 3], u8) = match args.get("palette") {
        None => ([0x00, 0x80, 0xff], 0x01),
        Some(p) => {
            let v: Vec<u8> = p.split(',').map(|x| u8::from_str_radix(x, 16).expect("palette: hex bytes")).collect();
            assert!(v.len() == 4 && v[0] != v[3] && v[1] != v[3] && v[2] != v[3], "palette: n1,n2,n3,other with other distinct from the needles");
            ([v[0], v[1], v[2]], v[3])
        }
    };
    bounds.insert("palette".into(), json!({"needles": hex(&nd), "other": format!("{:02x}", other)}));

    match mode.as_str() {
        // Exhaustive Full spaces on the scaled-down instantiations.
        "full" => {
            let subj_s: Vec<Subject> = args
                .str("subjects", "vn2,vn4,vn8,swar,sse2,avx2,top")
                .split(',')
                .map(Subject::parse)
                .collect();
            let l1 = args.num("l1", if thorough { 22 } else { 17 }) as usize;
            let l2 = args.num("l2", if thorough { 13 } else { 10 }) as usize;
            let l3 = args.num("l3", if thorough { 11 } else { 8 }) as usize;
            for (k, lmax) in [(1u8, l1), (2, l2), (3, l3)] {
                // group subjects by alignment count so small vectors do not
                // pay for 64 offsets
                let mut groups: std::collections::BTreeMap<usize, Vec<Subject>> = Default::default();
                for &s in &subj_s {
                    groups.entry(s.aligns()).or_default().push(s);
                }
                for (al, g) in groups {
                    run_full(&mut total, &g, k, &ops, 0..=lmax, al, nd, other);
                }
            }
            bounds.insert("full".into(), json!({
                "subjects": subj_s.iter().map(|s| s.name()).collect::<Vec<_>>(),
                "alphabet": "roles {other, n1..nk}", "max_len": {"k1": l1, "k2": l2, "k3": l3},
                "start_offsets": "0..min(64, 4*V) per subject", "needles": hex(&nd), "other": other,
            }));
        }
        // Role -> byte assignments incl. duplicates and extreme values, and
        // the SWAR value space.
        "values" => {
            let lv = args.num("lv", if thorough { 12 } else { 9 }) as usize;
            let needles = [0x00u8, 0x01, 0x7f, 0x80, 0xff, b'a'];
            let all: Vec<Subject> = args
                .str("subjects", "vn2,vn4,swar,sse2,avx2,top")
                .split(',')
                .map(Subject::parse)
                .collect();
            let mut n_assign = 0;
            for &n1 in &needles {
                for oth in [n1 ^ 1, n1 ^ 0x80, n1.wrapping_add(1), n1.wrapping_sub(1), !n1] {
                    n_assign += 1;
                    run_full(&mut total, &all, 1, &ops, 0..=lv, 8, [n1, n1, n1], oth);
                }
            }
            // duplicates / mixed needles for Two and Three
            for (nd3, oth) in [
                ([0x00u8, 0x00, 0x00], 0x01u8),
                ([0xff, 0xff, 0x7f], 0xfe),
                ([b'a', b'b', b'a'], b'c'),
                ([0x80, 0x7f, 0x80], 0x81),
                ([0x01, 0x00, 0xff], 0x02),
            ] {
                n_assign += 1;
                let l = lv.min(8);
                run_full(&mut total, &all, 2, &ops, 0..=l, 8, nd3, oth);
                run_full(&mut total, &all, 3, &ops, 0..=l.min(7), 8, nd3, oth);
            }
            // needles drawn from four CONSECUTIVE byte values, every triple
            // (incl. repeated needles and gaps), haystacks over the same four
            // values: exposes "needles span a range" shortcuts
            let lc = if thorough { 7 } else { 5 };
            for base in [0x61u8, 0xfe, 0x00] {
                let vals = [base, base.wrapping_add(1), base.wrapping_add(2), base.wrapping_add(3)];
                for t in 0..64usize {
                    let nd3 = [vals[t % 4], vals[(t / 4) % 4], vals[t / 16]];
                    n_assign += 1;
                    for len in 0..=lc {
                        let n = enumr::pow(4, len as u32);
                        let all_c = all.clone();
                        let rep = par::run_chunks(n, 1024, |lo, hi, r| {
                            let mut ctx = Ctx::new();
                            let mut data = vec![0u8; len];
                            enumr::for_strings(4, len, lo, hi, |idx, ds| {
                                for i in 0..len {
                                    data[i] = vals[ds[i] as usize];
                                }
                                for k in 1..=3u8 {
                                    check_shape(&mut ctx, r, &all_c, k, &ops, nd3, &data, Place::Plain, (idx % 4) as usize, idx, vals[3]);
                                }
                            });
                        });
                        total.merge(rep);
                    }
                }
            }
            run_swar_values(&mut total, &ops, if thorough { &needles } else { &needles[..3] }, thorough);
            bounds.insert("values".into(), json!({
                "assignments": n_assign, "max_len": lv,
                "swar_words": enumr::pow(7, 8), "xor_alphabet": "00,01,7f,80,81,fe,ff",
            }));
        }
        // Real-width instantiations on sparse / dense families.
        "sparse" => {
            let subj_s: Vec<Subject> = args
                .str("subjects", "vn4,vn8,vn16,vn32,swar,sse2,avx2,top")
                .split(',')
                .map(Subject::parse)
                .collect();
            for &s in &subj_s {
                let v = s.vbytes();
                // pairs / triples of matches: all lengths up to 7V+1 (thorough 10V);
                // single matches (and single holes): on to 14V resp. at least
                // 290 bytes, so that code gated on an absolute length (say
                // `len >= 256`) is entered at the real vector widths too
                let lmax = if thorough { 10 * v } else { 4 * v + 3 * v + 1 };
                let lmax = args.num("lmax", lmax as u64) as usize;
                let lsingle = args.num("lsingle", if thorough { (14 * v).max(300) } else if matches!(s, Subject::Vn(_)) { lmax } else { lmax.max(290) } as u64) as usize;
                let lens: Vec<usize> = (0..=lmax).collect();
                let lens1: Vec<usize> = (lmax + 1..=lsingle).collect();
                let deltas = [1, v - 1, v, v + 1, 2 * v, 3 * v, 4 * v];
                let ks = if thorough && v <= 8 { 3 } else if thorough || v <= 8 { 2 } else { 1 };
                let ks = args.num("ks", ks as u64) as usize;
                for k in 1..=3u8 {
                    let ksk = if k == 1 { ks } else { ks.min(2) };
                    run_sparse(&mut total, &[s], k, &ops, &lens, s.aligns(), ksk, ksk.min(2), &deltas, &[Place::Plain], nd, other);
                    if !lens1.is_empty() {
                        run_sparse(&mut total, &[s], k, &ops, &lens1, s.aligns(), 1, 1, &[], &[Place::Plain], nd, other);
                    }
                }
                bounds.insert(format!("sparse/{}", s.name()), json!({"max_len": lmax, "max_matches": ks, "single_match_max_len": lsingle, "pair_deltas": deltas, "start_offsets": s.aligns()}));
            }
        }
        // Haystack flush against PROT_NONE pages (hardware-fault monitor).
        "guard" => {
            let subj_s: Vec<Subject> = args.str("subjects", "swar,sse2,avx2,top").split(',').map(Subject::parse).collect();
            let lmax = args.num("lmax", if thorough { 3 * 128 + 64 } else { 2 * 128 + 34 }) as usize;
            let lens: Vec<usize> = (0..=lmax).collect();
            for k in 1..=3u8 {
                run_sparse(&mut total, &subj_s, k, &ops, &lens, 1, 1, 1, &[], &[Place::GuardEnd, Place::GuardStart], nd, other);
            }
            bounds.insert("guard".into(), json!({"max_len": lmax, "matches": "none, each single position, all, all-but-one", "places": ["guard-end", "guard-start"]}));
        }
        // Guard pages at the length thresholds: haystacks of V*t (+0,1,V-1)
        // bytes for the multipliers at which block / accumulator / unrolled
        // loops change regime (8..129, 255..257), 256..4100 and 65536 - flush
        // against a trailing PROT_NONE page and directly after a leading one;
        // no match, or one at the first / middle / last byte.
        "guard-long" => {
            let subj_s: Vec<Subject> = args.str("subjects", "swar,sse2,avx2,top").split(',').map(Subject::parse).collect();
            let mut lens: Vec<usize> = vec![256, 257, 1024, 1025, 2048, 2049, 4095, 4096, 4097, 4100, 8192, 65535, 65536, 65537];
            for v in [8usize, 16, 32] {
                for t in [8usize, 16, 32, 33, 64, 65, 128, 129, 255, 256, 257, 510, 512] {
                    for d in [0usize, 1, v - 1] {
                        lens.push(v * t + d);
                    }
                }
            }
            // ... and EVERY length up to 1100 (thorough 4200): a block size
            // need not be a power of two (255 words = 2040 bytes)
            lens.extend(1..=if thorough { 4200 } else { 1100 });
            if thorough {
                lens.extend([1 << 20, (1 << 20) + 1]);
            }
            lens.sort();
            lens.dedup();
            let rep = par::run_items(&lens, |_, &len, r| {
                let mut g = Arena::guarded(len / 4096 + 2);
                let mut data = vec![other; len];
                let mut order = 0u64;
                for k in 1..=3u8 {
                    for pos in [None, Some(0usize), Some(len / 2), Some(len - 1)] {
                        if let Some(p) = pos {
                            data[p] = nd[(k - 1) as usize];
                        }
                        for place in [Place::GuardEnd, Place::GuardStart] {
                            let off = if place == Place::GuardEnd { g.flush_end(len) } else { 0 };
                            let hay = g.place_fill(off, &data, other, other, 0);
                            order += 1;
                            r.states += 1;
                            for &s in &subj_s {
                                for &op in &ops {
                                    if op == Op::Count && k != 1 {
                                        continue;
                                    }
                                    r.evaluations += 1;
                                    r.nontrivial += 1;
                                    let exp = expected(k, op, nd, hay);
                                    let got = guarded(|| call(s, k, op, nd, hay));
                                    let bad = match &got {
                                        Err(m) => Some(("panic", format!("panicked: {}", m))),
                                        Ok(o) if o.res != exp => Some(("wrong_result", format!("returned {:?}, reference {:?}", o.res, exp))),
                                        Ok(o) => o.raw_problem.clone().map(|p| ("raw_form", p)),
                                    };
                                    if let Some((class, what)) = bad {
                                        r.violation(Violation {
                                            class: class.into(),
                                            key: ((len as u64) << 16) | order,
                                            what: format!("[{}] {} {}{} on a {}-byte haystack ({}) with a match at {:?}: {}", class, s.name(), op.name(), k, len, place.name(), pos, what),
                                            replay_argv: vec!["guard-long".into(), "--subjects".into(), s.name(), "--ops".into(), op.name().into()],
                                            detail: json!({"class": class, "subject": s.name(), "op": op.name(), "k": k, "len": len, "place": place.name(), "pos": pos}),
                                        });
                                    }
                                }
                            }
                        }
                        if let Some(p) = pos {
                            data[p] = other;
                        }
                    }
                }
            });
            total.merge(rep);
            bounds.insert("guard-long".into(), json!({"lens": lens.len(), "max_len": lens.last(), "rule": "V*{8,16,32,33,64,65,128,129,255,256,257,510,512}+{0,1,V-1} for V in {8,16,32}; 256..4100; 8192; 65535..65537; every length 1..=1100 (thorough 1..=4200, 1 MiB)", "places": ["guard-end", "guard-start"], "matches": "none, first, middle, last byte"}));
        }
        // Exact-size heap blocks, meant to run under valgrind memcheck.
        "heap" => {
            let subj_s: Vec<Subject> = args.str("subjects", "swar,sse2,avx2,top").split(',').map(Subject::parse).collect();
            let lmax = args.num("lmax", if thorough { 3 * 128 + 64 } else { 2 * 128 + 34 }) as usize;
            let shard = args.str("shard", "0/1");
            let (si, sn) = shard.split_once('/').map(|(a, b)| (a.parse::<usize>().unwrap(), b.parse::<usize>().unwrap())).unwrap();
            let lens: Vec<usize> = (0..=lmax).filter(|l| l % sn == si).collect();
            let aligns = args.num("aligns", 3) as usize;
            for k in 1..=3u8 {
                run_sparse(&mut total, &subj_s, k, &ops, &lens, aligns, 1, 0, &[], &[Place::Heap], nd, other);
            }
            bounds.insert("heap".into(), json!({"max_len": lmax, "shard": shard, "matches": "none and each single position", "block": "exactly a+len bytes, a in 0..aligns"}));
        }
        // Long haystacks with periodic / dense matches around the sizes at
        // which a per-lane accumulator of 8 or 16 bits would wrap.
        "long" => {
            let subj_s: Vec<Subject> = args.str("subjects", "swar,sse2,avx2,top").split(',').map(Subject::parse).collect();
            let mut lens: Vec<usize> = vec![];
            for v in [8usize, 16, 32, 64, 128] {
                for u in [255usize, 256, 257] {
                    for d in [0usize, 1, v - 1, v, v + 1, 2 * v + 3] {
                        lens.push(v * u + d);
                    }
                }
            }
            // 16-bit accumulators: 65536 words / vectors (both tiers - a
            // few hundred calls on 0.5..2 MiB each)
            for v in [8usize, 16, 32] {
                lens.push(v * 65536 + v + 1);
                if thorough {
                    lens.push(v * 65535);
                    lens.push(v * 65536);
                    lens.push(v * 65537 + 3);
                    lens.push(v * 131072 + 1);
                }
            }
            lens.sort();
            lens.dedup();
            let rep = par::run_items(&lens, |_, &len, r| {
                let mut big = Arena::plain(len / 4096 + 3);
                let mut data = vec![other; len];
                let mut order = 0u64;
                for period in [1usize, 2, 3, 8, 16, 32, 64] {
                    for phase in 0..period.min(8) {
                        for (i, b) in data.iter_mut().enumerate() {
                            *b = if i % period == phase { nd[0] } else { other };
                        }
                        for a in [0usize, 1, 9] {
                            let hay = big.place_fill(2048 + a, &data, other, other, 64);
                            order += 1;
                            r.states += 1;
                            for &subject in &subj_s {
                                for &op in &ops {
                                    r.evaluations += 1;
                                    let exp = expected(1, op, nd, hay);
                                    let got = guarded(|| call(subject, 1, op, nd, hay));
                                    r.bump(&format!("calls/{}", subject.name()));
                                    r.nontrivial += 1;
                                    let bad = match &got {
                                        Err(m) => Some(("panic", format!("panicked: {}", m))),
                                        Ok(o) if o.res != exp => Some(("wrong_result", format!("returned {:?}, reference {:?}", o.res, exp))),
                                        Ok(o) => o.raw_problem.clone().map(|p| ("raw_form", p)),
                                    };
                                    if let Some((class, what)) = bad {
                                        r.violation(Violation {
                                            class: class.into(),
                                            key: ((len as u64) << 16) | order,
                                            what: format!("[{}] {} {}1 on a {}-byte haystack with a match every {} bytes (phase {}), offset {}: {}", class, subject.name(), op.name(), len, period, phase, a, what),
                                            replay_argv: vec!["long".into(), "--subjects".into(), subject.name(), "--ops".into(), op.name().into()],
                                            detail: json!({"class": class, "subject": subject.name(), "op": op.name(), "len": len, "period": period, "phase": phase, "offset": a}),
                                        });
                                    }
                                }
                            }
                        }
                    }
                }
                r.sample(len as u64, || json!({"len": len, "patterns": "a match every p bytes for p in {1,2,3,8,16,32,64} at every phase < min(p,8)", "offsets": [0, 1, 9]}));
            });
            total.merge(rep);
            bounds.insert("long".into(), json!({"lens": lens.len(), "max_len": lens.last(), "rule": "V*{255,256,257} + {0,1,V-1,V,V+1,2V+3} for V in {8,16,32,64,128}; V*65536+V+1 for V in {8,16,32} (thorough: also V*{65535,65536,65537,131072})"}));
        }
        // Huge haystacks (1..2 MiB; thorough 16 MiB) at start addresses that are
        // page aligned, one byte off either way and mid-page: code gated on an
        // absolute size or on the address modulo the page size.
        "huge" => {
            let subj_s: Vec<Subject> = args.str("subjects", "swar,sse2,avx2,top").split(',').map(Subject::parse).collect();
            let mut lens: Vec<usize> = vec![(1 << 20) - 1, 1 << 20, (1 << 20) + 4097, (1 << 21) + 33];
            if thorough {
                lens.extend_from_slice(&[(1 << 22) + 1, 1 << 24]);
            }
            let starts = [0usize, 1, 2048, 4064, 4095];
            let items: Vec<(usize, usize)> = lens.iter().flat_map(|&l| starts.iter().map(move |&a| (l, a))).collect();
            let rep = par::run_items(&items, |_, &(len, a), r| {
                let mut big = Arena::plain(len / 4096 + 3);
                let mut data = vec![other; len];
                let mut positions: Vec<(Option<usize>, Option<usize>)> = vec![(None, None)];
                for p in [0usize, 1, 31, 32, 4095, 4096, 4097, len / 2, len - 4097, len - 4096, len - 33, len - 1] {
                    positions.push((Some(p), None));
                }
                for (p, q) in [(0usize, len - 1), (4095, 4096), (10, 5000), (len - 5000, len - 10), (4096 - a.min(4096), len / 2)] {
                    if p < q && q < len {
                        positions.push((Some(p), Some(q)));
                    }
                }
                let mut order = 0u64;
                for k in 1..=3u8 {
                    for &(pos, pos2) in &positions {
                        for (pp, role) in [(pos, 0usize), (pos2, (k as usize) - 1)] {
                            if let Some(p) = pp {
                                data[p] = nd[role];
                            }
                        }
                        // the arena's read/write part starts on a page boundary
                        let hay = big.place_fill(a, &data, other, other, 0);
                        order += 1;
                        r.states += 1;
                        for &s in &subj_s {
                            for &op in &ops {
                                if op == Op::Count && k != 1 {
                                    continue;
                                }
                                r.evaluations += 1;
                                r.nontrivial += 1;
                                r.bump(&format!("calls/{}", s.name()));
                                let exp = expected(k, op, nd, hay);
                                let got = guarded(|| call(s, k, op, nd, hay));
                                let bad = match &got {
                                    Err(m) => Some(("panic", format!("panicked: {}", m))),
                                    Ok(o) if o.res != exp => Some(("wrong_result", format!("returned {:?}, reference {:?}", o.res, exp))),
                                    Ok(o) => o.raw_problem.clone().map(|p| ("raw_form", p)),
                                };
                                if let Some((class, what)) = bad {
                                    r.violation(Violation {
                                        class: class.into(),
                                        key: ((len as u64) << 16) | order,
                                        what: format!("[{}] {} {}{} on a {}-byte haystack starting {} bytes past a page boundary with matches at ({:?}, {:?}): {}", class, s.name(), op.name(), k, len, a, pos, pos2, what),
                                        replay_argv: vec!["huge".into(), "--subjects".into(), s.name(), "--ops".into(), op.name().into()],
                                        detail: json!({"class": class, "subject": s.name(), "op": op.name(), "k": k, "len": len, "start_mod_page": a, "pos": pos, "pos2": pos2}),
                                    });
                                }
                            }
                        }
                        for pp in [pos, pos2] {
                            if let Some(p) = pp {
                                data[p] = other;
                            }
                        }
                    }
                }
                r.sample(len as u64, || json!({"len": len, "start_mod_page": a}));
            });
            total.merge(rep);
            bounds.insert("huge".into(), json!({"lens": lens, "start_mod_4096": starts, "matches": "none; one at {0,1,31,32,4095,4096,4097,len/2,len-4097,len-4096,len-33,len-1}; five pairs"}));
        }
        // Long haystacks with ONE match near either end (or none), at the
        // lengths where code gated on a length threshold - absolute (256,
        // 1024, 2048, 4096) or a multiple of the vector size - would first
        // be entered; all start offsets, every needle role, both fills.
        "long-single" => {
            let subj_s: Vec<Subject> = args.str("subjects", "vn2,vn4,vn8,swar,sse2,avx2,top").split(',').map(Subject::parse).collect();
            for &s in &subj_s {
                let v = s.vbytes();
                let mut lens: Vec<usize> = vec![];
                for t in [8usize, 16, 32, 33, 64, 65, 128, 129] {
                    for d in [0usize, 1, v - 1] {
                        lens.push(v * t + d);
                    }
                }
                if !matches!(s, Subject::Vn(_)) {
                    lens.extend_from_slice(&[256, 257, 1024, 1025, 2048, 2049, 4096, 4100]);
                }
                lens.sort();
                lens.dedup();
                let aligns = (if thorough { s.aligns() } else { s.aligns().min(2 * v) }).min(args.num("aligns", 1 << 20) as usize);
                let rep = par::run_items(&lens, |_, &len, r| {
                    let mut big = Arena::plain(len / 4096 + 3);
                    let mut data = vec![other; len];
                    let span = (6 * v).min(len);
                    // (first match, optional second match): none; every single
                    // position near either end; and pairs at short distances
                    let mut positions: Vec<(Option<usize>, Option<usize>)> = vec![(None, None)];
                    let mut singles: Vec<usize> = (0..span).chain(len - span..len).collect();
                    singles.sort();
                    singles.dedup();
                    for &p in &singles {
                        positions.push((Some(p), None));
                    }
                    for &p in &singles {
                        for d in [1usize, v - 1, v, v + 1, 2 * v - 1] {
                            if d > 0 && p + d < len && p % 2 == 0 {
                                positions.push((Some(p), Some(p + d)));
                            }
                        }
                    }
                    let mut order = 0u64;
                    for k in 1..=3u8 {
                        for role in 0..k as usize {
                            for &(pos, pos2) in &positions {
                                for b in data.iter_mut() {
                                    *b = other;
                                }
                                if let Some(p) = pos {
                                    data[p] = nd[role];
                                }
                                if let Some(p) = pos2 {
                                    data[p] = nd[(role + 1) % k as usize];
                                }
                                for a in 0..aligns {
                                    for fill in [nd[0], other] {
                                        if fill == other && matches!(s, Subject::Vn(_)) {
                                            continue;
                                        }
                                        let hay = big.place_fill(2048 + a, &data, fill, fill, 64);
                                        order += 1;
                                        r.states += 1;
                                        for &op in &ops {
                                            if op == Op::Count && k != 1 {
                                                continue;
                                            }
                                            r.evaluations += 1;
                                            r.nontrivial += 1;
                                            let exp = expected(k, op, nd, hay);
                                            let got = guarded(|| call(s, k, op, nd, hay));
                                            let bad = match &got {
                                                Err(m) => Some(("panic", format!("panicked: {}", m))),
                                                Ok(o) if o.res != exp => Some(("wrong_result", format!("returned {:?}, reference {:?}", o.res, exp))),
                                                Ok(o) => match (&o.stats, &o.raw_problem) {
                                                    (Some(st), _) if st.oob > 0 || st.misaligned > 0 => Some(("oob_load", format!("{} load(s) outside the haystack / {} misaligned", st.oob, st.misaligned))),
                                                    (_, Some(p)) => Some(("raw_form", p.clone())),
                                                    _ => None,
                                                },
                                            };
                                            if let Some((class, what)) = bad {
                                                r.violation(Violation {
                                                    class: class.into(),
                                                    key: ((len as u64) << 20) | (order & 0xfffff),
                                                    what: format!("[{}] {} {}{} on a {}-byte haystack with matches at {:?} (needle #{}), start offset {}, neighbour fill {:02x}: {}", class, s.name(), op.name(), k, len, (pos, pos2), role + 1, a, fill, what),
                                                    replay_argv: vec!["long-single".into(), "--subjects".into(), s.name(), "--ops".into(), op.name().into()],
                                                    detail: json!({"class": class, "subject": s.name(), "op": op.name(), "k": k, "len": len, "match_at": format!("{:?}", (pos, pos2)), "offset": a, "fill": fill}),
                                                });
                                            }
                                        }
                                    }
                                }
                            }
                        }
                    }
                    r.bump_by(&format!("calls/{}", s.name()), order);
                    r.sample(len as u64, || json!({"subject": s.name(), "len": len, "single_match_positions": format!("none, 0..{}, {}..{}", span, len - span, len), "start_offsets": aligns}));
                });
                total.merge(rep);
                bounds.insert(format!("long-single/{}", s.name()), json!({"lens": lens, "match_positions": "none; each of the first and last 6V positions; pairs (p, p+d) for even p in those spans and d in {1,V-1,V,V+1,2V-1}", "start_offsets": aligns}));
            }
        }
        "raw-edges" => {
            run_raw_edges(&mut total);
            bounds.insert("raw-edges".into(), json!(true));
        }
        _ => {
            eprintln!("usage: bs <full|values|sparse|guard|raw-edges|replay> [--tier quick|thorough] [--ops find,rfind,count] [--out file]");
            std::process::exit(2);
        }
    }
    let extra = json!({
        "engine": "bs", "mode": mode, "tier": if thorough { "thorough" } else { "quick" },
        "ops": ops.iter().map(|o| o.name()).collect::<Vec<_>>(),
        "bounds": Value::Object(bounds),
        "nontrivial_rule": "find: first match at index >= V or no match with len >= V; rfind: mirror image; count: len >= 2V (V = subject's vector width in bytes)",
        "exhaustive": true,
        "wall_s": t0.elapsed().as_secs_f64(),
    });
    total.write(&out, &format!("bs/{}", mode), extra);
    eprintln!(
        "bs/{}: {} shapes, {} calls, {} non-trivial, {} violations, {:.1}s",
        mode,
        total.states,
        total.evaluations,
        total.nontrivial,
        total.violation_count,
        t0.elapsed().as_secs_f64()
    );
}
