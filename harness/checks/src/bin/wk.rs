//! Work meter subject (C13). Builds one (needle, haystack) instance of an
//! adversarial family and performs one operation inside `measured_call`,
//! which the driver runs under `valgrind --tool=callgrind
//! --toggle-collect=*measured_call*`: the number of instructions executed
//! inside the call (construction of the finder included) is the work.
//!
//! wk <op> <family> <n> <m>      one instance (prints a RESULT line)
//! wk list <quick|thorough>      the instance grid, one per line

use memchr::memmem;

fn rep(u: &[u8], len: usize) -> Vec<u8> {
    u.iter().copied().cycle().take(len).collect()
}

fn fibonacci(len: usize) -> Vec<u8> {
    let (mut a, mut b) = (b"a".to_vec(), b"ab".to_vec());
    while b.len() < len {
        let mut c = b.clone();
        c.extend_from_slice(&a);
        a = b;
        b = c;
    }
    b.truncate(len);
    b
}

fn thue_morse(len: usize) -> Vec<u8> {
    (0..len).map(|i| if (i as u64).count_ones() % 2 == 0 { b'a' } else { b'b' }).collect()
}

const FAMILIES: [&str; 29] = [
    "am1b_in_a",            // a^(m-1)b in a^n: every position a long partial match
    "am1b_in_am1c",         // a^(m-1)b in (a^(m-1)c)^r
    "am1b_in_am2_bm1",      // a^(m-1)b in (a^(m-2) b^(m-1))^r: every a is a candidate that fails late
    "bam1_in_a",            // b a^(m-1) in a^n (reverse worst case)
    "am_in_a",              // a^m in a^n: dense matches
    "periodic_ab",          // (ab)^(m/2) in (ab)^j aa (ab)^j aa ...
    "periodic_aab_near",    // (aab)^k in (aab)^(k-1) aac repeated
    "fib_in_fib",           // Fibonacci word needle in a Fibonacci haystack
    "tm_in_tm",             // Thue-Morse needle in a Thue-Morse haystack
    "rare_pair_everywhere", // needle z e^(m-2) q, haystack (z e^(m-2) x)^r with z..q planted densely
    "prefix_then_dense",    // huge candidate-free prefix, then dense false candidates (prefilter stays on)
    "rk_collision",         // a^(m-33) b a^32 in a^n (2^32 hash collisions)
    "zqee_periodic_blocks", // small-period needle (zqee)^k against blocks of its own period broken every m-1
    "prefix_breaks_period", // ' ' (zq)^k in (zq)^n: the rare pair lies in the periodic part
    "suffix_breaks_period", // (zq)^k ' ' in (zq)^n (mirror image)
    "b_then_a_run",         // b a^k in a^n b a^(k-1) ... with b planted so that the prefilter stays busy
    "a_run_then_b",         // mirror image
    "prefix_then_periodic", // (ab)^k bb behind a candidate-free prefix and a long (ab)* run: every other offset is a candidate agreeing with almost the whole needle
    "prefix_then_ab_run_z", // (ab)^k z behind a barren 4/5 and an (ab)* run
    "prefix_then_abc_run_z",
    "matches_then_barren",  // a^m matches densely in the first half, second half barren
    "barren_then_matches",  // mirror image
    "barren_then_ab",       // needle "ab": x^(n/2) (ab)^(n/4)
    "ab_then_barren",       // mirror image
    "barren_then_abcab",    // needle "abcab" back to back behind a barren half
    "abcab_then_barren",    // mirror image
    "dense_1byte",          // needle "a" in a^n
    "dense_2byte",          // needle "aa" in a^n
    "dense_empty",          // empty needle in any haystack
];

fn instance(family: &str, n: usize, m: usize) -> (Vec<u8>, Vec<u8>) {
    let m = m.max(2);
    match family {
        "am1b_in_a" => {
            let mut nd = vec![b'a'; m];
            nd[m - 1] = b'b';
            (nd, vec![b'a'; n])
        }
        "am1b_in_am1c" => {
            let mut nd = vec![b'a'; m];
            nd[m - 1] = b'b';
            let mut u = vec![b'a'; m];
            u[m - 1] = b'c';
            (nd, rep(&u, n))
        }
        "am1b_in_am2_bm1" => {
            let mut nd = vec![b'a'; m];
            nd[m - 1] = b'b';
            let mut u = vec![b'a'; m - 2];
            u.extend(vec![b'b'; m - 1]);
            (nd, rep(&u, n))
        }
        "bam1_in_a" => {
            let mut nd = vec![b'a'; m];
            nd[0] = b'b';
            (nd, vec![b'a'; n])
        }
        "am_in_a" => (vec![b'a'; m], vec![b'a'; n]),
        "periodic_ab" => {
            let nd = rep(b"ab", m);
            let mut u = rep(b"ab", m - 2);
            u.extend_from_slice(b"aa");
            (nd, rep(&u, n))
        }
        "periodic_aab_near" => {
            let nd = rep(b"aab", m);
            let mut u = rep(b"aab", m - 1);
            u.push(b'c');
            (nd, rep(&u, n))
        }
        "fib_in_fib" => {
            let mut nd = fibonacci(m);
            let l = nd.len();
            nd[l - 1] ^= 3; // never matches
            (nd, fibonacci(n))
        }
        "tm_in_tm" => {
            let mut nd = thue_morse(m);
            let l = nd.len();
            nd[l - 1] ^= 3;
            (nd, thue_morse(n))
        }
        "rare_pair_everywhere" => {
            let mut nd = vec![b'e'; m];
            nd[0] = b'z';
            nd[m - 1] = b'q';
            // haystack: z and q planted so that (z at p, q at p+m-1) holds for
            // as many p as possible: period 2 pattern "zq" works when m-1 is odd
            let h: Vec<u8> = (0..n).map(|i| if i % 2 == 0 { b'z' } else { b'q' }).collect();
            (nd, h)
        }
        "prefix_then_dense" => {
            let mut nd = rep(b"e ", m);
            nd[0] = b'z';
            nd[m - 1] = b'q';
            let mut h = vec![b'.'; n];
            let start = n / 2;
            let mut p = start;
            while p + m < n {
                h[p] = b'z';
                h[p + m - 1] = b'q';
                // the needle's interior too, except one byte: a late mismatch
                for j in 1..m - 1 {
                    if h[p + j] == b'.' {
                        h[p + j] = nd[j];
                    }
                }
                h[p + m - 2] = b'#';
                p += 3;
            }
            (nd, h)
        }
        "rk_collision" => {
            let m = m.max(40);
            let mut nd = vec![b'a'; m];
            nd[m - 33] = b'b';
            (nd, vec![b'a'; n])
        }
        "zqee_periodic_blocks" => {
            let nd = rep(b"zqee", m);
            let mut u = rep(b"zqee", m - 1);
            u.push(b'#');
            let mut h = vec![b'.'; n / 2];
            h.extend(rep(&u, n - n / 2));
            (nd, h)
        }
        "prefix_breaks_period" => {
            let mut nd = vec![b' '];
            nd.extend(rep(b"zq", m - 1));
            (nd, rep(b"zq", n))
        }
        "suffix_breaks_period" => {
            let mut nd = rep(b"zq", m - 1);
            nd.push(b' ');
            (nd, rep(b"zq", n))
        }
        "b_then_a_run" => {
            let mut nd = vec![b'a'; m];
            nd[0] = b'b';
            // b a^(m-2) c repeated: every b starts a long partial match
            let mut u = vec![b'a'; m];
            u[0] = b'b';
            u[m - 1] = b'c';
            (nd, rep(&u, n))
        }
        "a_run_then_b" => {
            let mut nd = vec![b'a'; m];
            nd[m - 1] = b'b';
            let mut u = vec![b'a'; m];
            u[0] = b'c';
            u[m - 1] = b'b';
            (nd, rep(&u, n))
        }
        "prefix_then_periodic" => {
            let mut nd = rep(b"ab", m - 2);
            nd.extend_from_slice(b"bb");
            let mut h = vec![b'z'; n / 2];
            h.extend(rep(b"ab", n / 2 - 2));
            h.extend_from_slice(b"bb");
            (nd, h)
        }
        // needle u^k z (critical position at the very end, long
        // self-overlapping prefix; the rare pair lies in the periodic part when
        // z is beyond offset 254) behind a candidate-free prefix of 4/5 of the
        // haystack - long enough to keep the adaptive prefilter switched on -
        // and a run of u: every |u|-th offset is a fresh prefilter candidate
        // that agrees with the needle up to the end of the run
        "prefix_then_ab_run_z" | "prefix_then_abc_run_z" => {
            let u: &[u8] = if family.contains("abc") { b"abc" } else { b"ab" };
            let mut nd = rep(u, (m - 1) / u.len() * u.len());
            nd.push(b'z');
            let mut h = vec![b'c' + 10; n * 4 / 5];
            let run = n - h.len() - nd.len().min(n / 10);
            h.extend(rep(u, run / u.len() * u.len()));
            h.extend_from_slice(&nd[..nd.len().min(n / 10)]);
            (nd, h)
        }
        "matches_then_barren" => {
            let mut h = vec![b'a'; n / 2];
            h.extend(vec![b'x'; n - n / 2]);
            (vec![b'a'; m.min(64)], h)
        }
        "barren_then_matches" => {
            let mut h = vec![b'x'; n / 2];
            h.extend(vec![b'a'; n - n / 2]);
            (vec![b'a'; m.min(64)], h)
        }
        // a short needle matching back to back in one half of the haystack,
        // the other half free of every needle byte: an iterator that re-scans
        // text it has passed (or not yet reached) per match is quadratic here
        "barren_then_ab" | "ab_then_barren" | "barren_then_abcab" | "abcab_then_barren" => {
            let unit: &[u8] = if family.contains("abcab") { b"abcab" } else { b"ab" };
            let dense = rep(unit, n / 2 / unit.len() * unit.len());
            let barren = vec![b'x'; n - dense.len()];
            let h = if family.starts_with("barren") { [barren, dense].concat() } else { [dense, barren].concat() };
            (unit.to_vec(), h)
        }
        "dense_1byte" => (b"a".to_vec(), vec![b'a'; n]),
        "dense_2byte" => (b"aa".to_vec(), vec![b'a'; n]),
        "dense_empty" => (vec![], vec![b'a'; n]),
        // "rle-<first letter>-<runs>": the needle given by its run-length
        // encoding over alternating letters a/b; each run is 1, 2, K-1 (j),
        // K (k) or K+1 (l) bytes with K chosen so that the needle has about m
        // bytes. The haystack repeats the needle with its last byte replaced.
        _ if family.starts_with("rle-") => {
            let parts: Vec<&str> = family.split('-').collect();
            let first = parts[1].as_bytes()[0];
            let runs = parts[2].as_bytes();
            let big = runs.iter().filter(|c| matches!(**c, b'j' | b'k' | b'l')).count().max(1);
            let k = (m / big).max(3);
            let mut nd = vec![];
            let mut letter = first;
            for &c in runs {
                let len = match c {
                    b'1' => 1,
                    b'2' => 2,
                    b'j' => k - 1,
                    b'k' => k,
                    b'l' => k + 1,
                    _ => panic!("bad run symbol"),
                };
                nd.extend(std::iter::repeat(letter).take(len));
                letter = if letter == b'a' { b'b' } else { b'a' };
            }
            let mut u = nd.clone();
            *u.last_mut().unwrap() = b'c';
            (nd, rep(&u, n))
        }
        _ => panic!("unknown family {}", family),
    }
}

/// Every run-length shape of at most `maxruns` runs over the given symbols.
fn rle_shapes(symbols: &[u8], maxruns: usize) -> Vec<String> {
    let mut out = vec![];
    let mut level: Vec<String> = vec![String::new()];
    for _ in 0..maxruns {
        let mut next = vec![];
        for s in &level {
            for &c in symbols {
                let mut t = s.clone();
                t.push(c as char);
                next.push(t);
            }
        }
        out.extend(next.iter().cloned());
        level = next;
    }
    out
}

const OPS: [&str; 8] = ["find", "rfind", "find_iter", "rfind_iter", "memmem_find", "memmem_rfind", "find_nopre", "find_iter_nopre"];

/// Returns (checksum, number of matches yielded).
#[inline(never)]
fn measured_call(op: &str, needle: &[u8], hay: &[u8]) -> (u64, u64) {
    let one = |o: Option<usize>| (o.map(|x| x as u64 + 1).unwrap_or(0), o.is_some() as u64);
    match op {
        "find" => one(memmem::Finder::new(needle).find(hay)),
        "find_nopre" => one(memmem::FinderBuilder::new().prefilter(memmem::Prefilter::None).build_forward(needle).find(hay)),
        "find_iter_nopre" => {
            let f = memmem::FinderBuilder::new().prefilter(memmem::Prefilter::None).build_forward(needle);
            let (mut c, mut k) = (0u64, 0u64);
            for p in f.find_iter(hay) {
                c = c.wrapping_add(p as u64 + 1);
                k += 1;
            }
            (c, k)
        }
        "rfind" => one(memmem::FinderRev::new(needle).rfind(hay)),
        "find_iter" => {
            let (mut c, mut k) = (0u64, 0u64);
            for p in memmem::find_iter(hay, needle) {
                c = c.wrapping_add(p as u64 + 1);
                k += 1;
            }
            (c, k)
        }
        "rfind_iter" => {
            let (mut c, mut k) = (0u64, 0u64);
            for p in memmem::rfind_iter(hay, needle) {
                c = c.wrapping_add(p as u64 + 1);
                k += 1;
            }
            (c, k)
        }
        "memmem_find" => one(memmem::find(hay, needle)),
        "memmem_rfind" => one(memmem::rfind(hay, needle)),
        _ => panic!("unknown op {}", op),
    }
}

fn main() {
    let a: Vec<String> = std::env::args().skip(1).collect();
    if a.first().map(|s| s.as_str()) == Some("list") {
        let thorough = a.get(1).map(|s| s == "thorough").unwrap_or(false);
        // needle construction (and one search) for EVERY run-length shape of
        // the needle up to a number of runs: the inputs on which the
        // suffix / period computations take their different branches
        let (symbols, maxruns, firsts): (&[u8], usize, &[u8]) = if thorough { (b"1jkl", 5, b"ab") } else { (b"1kl", 4, b"a") };
        for shape in rle_shapes(symbols, maxruns) {
            if !shape.bytes().any(|c| c != b'1') {
                continue;
            }
            for &f in firsts {
                for op in ["find", "rfind"] {
                    println!("{} rle-{}-{} {} {}", op, f as char, shape, 8192, 3000);
                }
            }
        }
        let ns: &[usize] = if thorough { &[1 << 12, 1 << 14, 1 << 16, 1 << 18, 1 << 20] } else { &[1 << 12, 1 << 15] };
        let ms: &[usize] = if thorough { &[8, 24, 32, 33, 64, 200, 250, 1000, 4000, 16000] } else { &[8, 32, 33, 250, 1000, 4000, 8000] };
        for fam in FAMILIES {
            let dense = fam.starts_with("dense_") || ["barren_then_ab", "ab_then_barren", "barren_then_abcab", "abcab_then_barren"].contains(&fam);
            // forward families also run the reverse operations (they are the
            // mirror-image worst cases only for bam1_in_a, but must be linear
            // everywhere); one-shot memmem::{find,rfind} on the families where
            // the < 64 / Rabin-Karp routing matters
            let ops: &[&str] = if dense || fam.contains("barren") {
                if fam.contains("_then_") && dense { &["find_iter", "rfind_iter", "find_iter_nopre"] } else { &["find_iter", "rfind_iter"] }
            } else if fam == "rk_collision" || fam == "am1b_in_a" {
                &["find", "rfind", "find_iter", "rfind_iter", "memmem_find", "memmem_rfind", "find_nopre"]
            } else if thorough {
                &["find", "rfind", "find_iter", "rfind_iter", "find_nopre", "find_iter_nopre"]
            } else {
                &["find", "rfind", "find_iter", "find_nopre"]
            };
            for &n in ns {
                for &m in if dense { &ms[..1] } else { ms } {
                    if !dense && m > n / 4 {
                        continue;
                    }
                    for op in ops {
                        println!("{} {} {} {}", op, fam, n, m);
                    }
                }
            }
            // iteration over many matches next to a long barren region: a
            // per-match cost proportional to the barren part only shows at
            // scale (vectorised scans cost ~0.1 instruction per byte)
            if !thorough && (dense || fam.contains("barren")) {
                for op in ops {
                    println!("{} {} {} {}", op, fam, 1 << 18, 8);
                }
            }
            // needles comparable in size to the haystack (few windows, each
            // potentially expensive)
            if fam == "am1b_in_a" || fam == "bam1_in_a" || fam == "rk_collision" {
                for &m in &[100usize, 1000, 4000, 16000] {
                    for n in [m + 1, m + m / 2, 2 * m - 1] {
                        for op in ["find", "rfind", "memmem_find", "memmem_rfind"] {
                            println!("{} {} {} {}", op, fam, n, m);
                        }
                    }
                }
            }
            // quadratic behaviour with a small constant only shows at larger
            // sizes: the families that keep the prefilter switched on also run
            // at 2^17 (thorough: 2^18) with a needle of n/16 bytes
            if fam.starts_with("prefix_then") || fam == "rare_pair_everywhere" || fam == "zqee_periodic_blocks" {
                let big: &[usize] = if thorough { &[1 << 17, 1 << 18] } else { &[1 << 17] };
                for &n in big {
                    for m in [n / 16] {
                        println!("find {} {} {}", fam, n, m);
                    }
                }
            }
        }
        return;
    }
    let (op, fam) = (a[0].as_str(), a[1].as_str());
    let n: usize = a[2].parse().unwrap();
    let m: usize = a[3].parse().unwrap();
    let (needle, hay) = instance(fam, n, m);
    // warm the dispatch cells so one-off CPU detection is not measured
    let _ = memchr::memchr(b'x', b"warm up the dispatcher");
    let _ = memchr::memrchr(b'x', b"warm up the dispatcher");
    let (r, k) = measured_call(op, &needle, &hay);
    println!("RESULT {} {} n={} m={} value={} matches={}", op, fam, hay.len(), needle.len(), r, k);
}
