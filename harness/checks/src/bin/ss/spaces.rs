//! Input spaces for substring search. Every space is a finite enumerated
//! set; nothing is drawn at random.

use mcore::enumr;

/// All strings over `letters` of length `0..=maxlen`, indexed shortest first.
#[derive(Clone)]
pub struct AllStrings {
    pub letters: Vec<u8>,
    pub minlen: usize,
    pub maxlen: usize,
}

impl AllStrings {
    pub fn total(&self) -> u64 {
        (self.minlen..=self.maxlen)
            .map(|l| enumr::pow(self.letters.len() as u64, l as u32))
            .sum()
    }

    /// Calls `f(global_index, bytes)` for every string with index in lo..hi.
    pub fn for_range(&self, lo: u64, hi: u64, mut f: impl FnMut(u64, &[u8])) {
        let k = self.letters.len() as u64;
        let mut base = 0u64;
        let mut buf: Vec<u8> = vec![];
        for len in self.minlen..=self.maxlen {
            let n = enumr::pow(k, len as u32);
            let (a, b) = (lo.max(base), hi.min(base + n));
            if a < b {
                enumr::for_strings(k as u8, len, a - base, b - base, |i, s| {
                    buf.clear();
                    buf.extend(s.iter().map(|&d| self.letters[d as usize]));
                    f(base + i, &buf);
                });
            }
            base += n;
            if base >= hi {
                break;
            }
        }
    }

    pub fn all(&self) -> Vec<Vec<u8>> {
        let mut v = vec![];
        self.for_range(0, self.total(), |_, s| v.push(s.to_vec()));
        v
    }
}

fn rep(u: &[u8], len: usize) -> Vec<u8> {
    u.iter().copied().cycle().take(len).collect()
}

pub fn fibonacci(len: usize) -> Vec<u8> {
    let (mut a, mut b) = (b"a".to_vec(), b"ab".to_vec());
    while b.len() < len {
        let mut c = b.clone();
        c.extend_from_slice(&a);
        a = b;
        b = c;
    }
    b.truncate(len);
    b
}

pub fn thue_morse(len: usize) -> Vec<u8> {
    (0..len).map(|i| if (i as u64).count_ones() % 2 == 0 { b'a' } else { b'b' }).collect()
}

/// Long structured needles (Two-Way + prefilter territory).
pub fn ln_needles(lengths: &[usize], max_u: usize) -> Vec<Vec<u8>> {
    let mut out: Vec<Vec<u8>> = vec![];
    let us = AllStrings { letters: b"ab".to_vec(), minlen: 1, maxlen: max_u }.all();
    for &l in lengths {
        for u in &us {
            out.push(rep(u, l)); // u^k (truncated)
            let mut v = rep(u, l - 1);
            v.push(b'c'); // u^k c
            out.push(v);
            let mut v = vec![b'c'];
            v.extend(rep(u, l - 1)); // c u^k
            out.push(v);
            // u^k with one foreign byte in the middle
            let mut v = rep(u, l);
            v[l / 2] = b'c';
            out.push(v);
        }
        out.push(fibonacci(l));
        out.push(thue_morse(l));
        let mut f = fibonacci(l);
        f.reverse();
        out.push(f);
        if l > 34 {
            let mut v = vec![b'a'; l];
            v[l - 33] = b'b'; // a^(l-33) b a^32 : Rabin-Karp's 2^32 collision family
            out.push(v);
        }
        // rare bytes (by the default frequency table 'z','q' are rare, 'e',' ' common)
        let common = rep(b"e ", l);
        let mut v = common.clone();
        v[0] = b'z';
        v[1] = b'q';
        out.push(v); // rare early
        let mut v = common.clone();
        v[l - 2] = b'z';
        v[l - 1] = b'q';
        out.push(v); // rare late
        let mut v = common.clone();
        v[0] = b'z';
        v[l - 1] = b'q';
        out.push(v); // rare at both ends
        let mut v = common.clone();
        v[l / 2] = b'z';
        out.push(v); // one rare byte, second choice arbitrary
        // long periods (period > half the length): W W[..r] with the rare
        // bytes at several places of W, in particular in its last r bytes
        for &per in &[l - 3, l - 8, l * 3 / 4, l / 2 + 1] {
            for &(za, qa) in &[(1usize, per - 2), (per - 1, per / 2), (per - 2, per - 1), (0, 1), (per / 2, per / 2 + 3)] {
                let mut w = vec![b'e'; per];
                w[0] = b'a';
                w[za % per] = b'z';
                w[qa % per] = b'q';
                w[(per / 3) % per] = b'j';
                out.push(rep(&w, l));
            }
        }
        // alphabet-rich needles (many distinct bytes, many residues mod 64)
        out.push((0..l).map(|i| i as u8).collect()); // identity table prefix
        out.push((0..l).map(|i| 255 - (i as u8)).collect());
        out.push((0..l).map(|i| 64u8.wrapping_add(i as u8)).collect()); // '@ABC...' ASCII chart order
        out.push((0..l).map(|i| (i as u8).wrapping_mul(37).wrapping_add(11)).collect());
        out.push((0..l).map(|i| 48 + (i % 43) as u8).collect());
        out.push((0..l).rev().map(|i| 32 + (i % 90) as u8).collect());
        // bytes equal mod 64
        out.push(rep(&[0x01, 0x41, 0x81, 0xc1], l));
        let mut v = rep(&[0x01, 0x41], l);
        v[l - 1] = 0x81;
        out.push(v);
    }
    out.sort();
    out.dedup();
    // order simplest first: by length then lexicographic
    out.sort_by(|a, b| (a.len(), a).cmp(&(b.len(), b)));
    out
}

/// Haystacks built from a needle's own factors: every concatenation of at
/// most `max_pieces` pieces, capped at `cap` bytes, plus `pad_l + needle +
/// pad_r` for every pad_l, pad_r <= max_pad (two pad bytes).
pub fn factor_haystacks(
    needle: &[u8],
    crit: Option<usize>,
    max_pieces: usize,
    max_pad: usize,
    cap: usize,
) -> Vec<Vec<u8>> {
    let mut out = factor_haystacks_base(needle, crit, max_pieces, max_pad, cap);
    if std::env::var("VERIF_LN_NOFLIPS").is_ok() {
        // reduced set for runs under valgrind
        return out;
    }
    // near-occurrences with a change at EVERY position (single byte, and a
    // run from that position of up to 6 bytes), in pairs separated by gaps:
    // x+needle[1..] / needle / flipped needle, then a gap, then a flipped needle
    let m = needle.len();
    let firsts: Vec<Vec<u8>> = {
        let mut a = needle.to_vec();
        a[0] = if a[0] == b'x' { b'w' } else { b'x' };
        let mut b = needle.to_vec();
        b[m / 2] = if b[m / 2] == b'x' { b'w' } else { b'x' };
        vec![a, b, needle[1..].to_vec()]
    };
    // for long needles the change positions are thinned to both ends, the
    // middle and every 8th position
    let keep = |j: usize| m <= 80 || j < 16 || j + 16 >= m || (j + 4 >= m / 2 && j <= m / 2 + 4) || j % 8 == 0;
    for first in &firsts {
        for j in (0..m).filter(|&j| keep(j)) {
            for run in [1usize, 6] {
                let mut second = needle.to_vec();
                for t in j..(j + run).min(m) {
                    second[t] = if second[t] == b'o' { b'w' } else { b'o' };
                }
                for gap in [0usize, 1, 7, 40] {
                    let mut h = first.clone();
                    h.extend(std::iter::repeat(b'y').take(gap));
                    h.extend_from_slice(&second);
                    out.push(h.clone());
                    // ... followed by a genuine occurrence
                    h.extend(std::iter::repeat(b'y').take(gap / 2));
                    h.extend_from_slice(needle);
                    out.push(h);
                }
            }
        }
    }
    out
}

fn factor_haystacks_base(
    needle: &[u8],
    crit: Option<usize>,
    max_pieces: usize,
    max_pad: usize,
    cap: usize,
) -> Vec<Vec<u8>> {
    let m = needle.len();
    let mut pieces: Vec<Vec<u8>> = vec![];
    pieces.push(needle.to_vec());
    pieces.push(needle[..m - 1].to_vec());
    pieces.push(needle[1..].to_vec());
    pieces.push(needle[..m / 2].to_vec());
    pieces.push(needle[m / 2..].to_vec());
    let mut flips = vec![0, m / 2, m - 1];
    if let Some(c) = crit {
        if c > 0 {
            flips.push(c - 1);
        }
        if c < m {
            flips.push(c);
        }
    }
    flips.sort();
    flips.dedup();
    for j in flips {
        let mut v = needle.to_vec();
        v[j] = if v[j] == b'x' { b'w' } else { b'x' };
        pieces.push(v);
    }
    for f in [1usize, 7, 16, 31] {
        pieces.push(vec![b'y'; f]);
    }
    pieces.sort();
    pieces.dedup();
    let mut out: Vec<Vec<u8>> = vec![vec![]];
    // all concatenations of 1..=max_pieces pieces
    let np = pieces.len() as u64;
    for n in 1..=max_pieces {
        let total = enumr::pow(np, n as u32);
        let mut idx = vec![0u8; n];
        for t in 0..total {
            enumr::decode(t, np, &mut idx);
            let mut h: Vec<u8> = vec![];
            for &i in &idx {
                h.extend_from_slice(&pieces[i as usize]);
            }
            if h.len() <= cap {
                out.push(h);
            }
        }
    }
    for &pad in &[b'y', needle[m - 1]] {
        for pl in 0..=max_pad {
            for pr in 0..=max_pad {
                let mut h = vec![pad; pl];
                h.extend_from_slice(needle);
                h.extend(std::iter::repeat(pad).take(pr));
                out.push(h);
                // near miss: last byte of the needle flipped
                let mut h = vec![pad; pl];
                h.extend_from_slice(&needle[..m - 1]);
                h.push(if needle[m - 1] == b'x' { b'w' } else { b'x' });
                h.extend(std::iter::repeat(pad).take(pr));
                out.push(h);
            }
        }
    }
    out
}

pub const PADS: [usize; 12] = [0, 1, 2, 3, 7, 8, 15, 16, 17, 31, 32, 33];

/// Prefilter-history haystacks for a needle whose candidate pair is
/// (`i1`,`i2`) with bytes (`b1`,`b2`): `prefix` filler bytes, then `d` false
/// candidates at gap `g`, then a true match at distance `t` (or none).
pub fn pf_haystack(
    needle: &[u8],
    i1: usize,
    i2: usize,
    filler: u8,
    prefix: usize,
    d: usize,
    g: usize,
    t: Option<usize>,
) -> Vec<u8> {
    let m = needle.len();
    let span = i1.max(i2) + 1;
    let body = prefix + d * g + span + t.map(|t| t + m).unwrap_or(0) + 4;
    let mut h = vec![filler; body];
    for i in 0..d {
        let p = prefix + i * g;
        h[p + i1] = needle[i1];
        h[p + i2] = needle[i2];
    }
    if let Some(t) = t {
        let p = prefix + d * g + span + t;
        h[p..p + m].copy_from_slice(needle);
    }
    h
}

/// Needles for the prefilter-history family: > 32 bytes (Two-Way with a
/// prefilter), with rare bytes.
pub fn pf_needles() -> Vec<Vec<u8>> {
    let mut v = vec![];
    for &l in &[33usize, 40, 65] {
        let common: Vec<u8> = b"e ".iter().copied().cycle().take(l).collect();
        let mut a = common.clone();
        a[0] = b'z';
        a[l - 1] = b'q';
        v.push(a);
        let mut b = common.clone();
        b[l / 2] = b'z';
        b[l / 2 + 1] = b'q';
        v.push(b);
        // periodic needle with rare bytes (small-period Two-Way branch)
        let c: Vec<u8> = b"zqee".iter().copied().cycle().take(l).collect();
        v.push(c);
    }
    v
}

/// The PF grid for a needle whose candidate pair is (i1, i2): candidate-free
/// prefix s, d false candidates at gap g, then a true match at distance t (or
/// none), followed by a second, shorter run of candidates and a second match.
pub fn pf_haystacks(needle: &[u8], i1: usize, i2: usize, thorough: bool) -> Vec<Vec<u8>> {
    let mut out = vec![];
    let prefixes: &[usize] = if thorough { &[0, 100, 400, 1000, 20000] } else { &[0, 100, 1000] };
    let ds: &[usize] = if thorough { &[0, 10, 48, 49, 50, 51, 52, 60, 70] } else { &[0, 49, 50, 51, 70] };
    let gs: Vec<usize> = if thorough { (1..=12).collect() } else { vec![1, 2, 5, 7, 8, 9, 12] };
    let ts: &[Option<usize>] = if thorough { &[None, Some(0), Some(1), Some(7), Some(40)] } else { &[None, Some(0), Some(7)] };
    for &s in prefixes {
        for &d in ds {
            for &g in &gs {
                for &t in ts {
                    let mut h = pf_haystack(needle, i1, i2, b'.', s, d, g, t);
                    let tail = pf_haystack(needle, i1, i2, b'.', 3, d / 2, g, Some(2));
                    h.extend_from_slice(&tail);
                    out.push(h);
                }
            }
        }
    }
    out
}

/// SF ("short factor") haystacks for a short needle: two near-occurrences
/// (the needle, or the needle with one byte changed, or a proper prefix /
/// suffix of it) separated by a short gap, embedded in padding so that the
/// haystack is long enough for Two-Way / the vector searchers:
/// `pad_l + P + gap + Q + pad_r` for every pair of pieces, every gap of at
/// most two letters, and a grid of pads.
pub fn sf_haystacks(needle: &[u8], letters: &[u8], foreign: u8, three: bool, mut f: impl FnMut(&[u8])) {
    let m = needle.len();
    let mut pieces: Vec<Vec<u8>> = vec![needle.to_vec()];
    for j in 0..m {
        for &l in letters.iter().chain(std::iter::once(&foreign)) {
            if l != needle[j] {
                let mut v = needle.to_vec();
                v[j] = l;
                pieces.push(v);
            }
        }
    }
    for j in 1..m {
        pieces.push(needle[..j].to_vec());
        pieces.push(needle[j..].to_vec());
    }
    pieces.sort();
    pieces.dedup();
    let mut gaps: Vec<Vec<u8>> = vec![vec![]];
    let gl: Vec<u8> = letters.iter().copied().chain(std::iter::once(foreign)).collect();
    for &a in &gl {
        gaps.push(vec![a]);
    }
    for &a in &gl {
        for &b in &gl {
            gaps.push(vec![a, b]);
        }
    }
    gaps.push(vec![foreign; 5]);
    let pads: [(usize, usize); 5] = [(0, 16), (16, 0), (1, 17), (7, 9), (0, 0)];
    let mut h: Vec<u8> = Vec::with_capacity(64);
    for p in &pieces {
        for q in &pieces {
            for g in &gaps {
                for &(pl, pr) in &pads {
                    h.clear();
                    h.extend(std::iter::repeat(foreign).take(pl));
                    h.extend_from_slice(p);
                    h.extend_from_slice(g);
                    h.extend_from_slice(q);
                    if three {
                        h.extend_from_slice(g);
                        h.extend_from_slice(p);
                    }
                    h.extend(std::iter::repeat(foreign).take(pr));
                    f(&h);
                }
            }
        }
    }
}
