//! M-alloc: a counting global allocator. `allocs()` is the number of
//! allocation calls made by *this thread*; engines read it before and after a
//! subject call.

use std::alloc::{GlobalAlloc, Layout, System};
use std::cell::Cell;

pub struct Counting;

thread_local! {
    static ALLOCS: Cell<u64> = const { Cell::new(0) };
}

unsafe impl GlobalAlloc for Counting {
    unsafe fn alloc(&self, l: Layout) -> *mut u8 {
        let _ = ALLOCS.try_with(|c| c.set(c.get() + 1));
        System.alloc(l)
    }
    unsafe fn dealloc(&self, p: *mut u8, l: Layout) {
        System.dealloc(p, l)
    }
    unsafe fn alloc_zeroed(&self, l: Layout) -> *mut u8 {
        let _ = ALLOCS.try_with(|c| c.set(c.get() + 1));
        System.alloc_zeroed(l)
    }
    unsafe fn realloc(&self, p: *mut u8, l: Layout, n: usize) -> *mut u8 {
        let _ = ALLOCS.try_with(|c| c.set(c.get() + 1));
        System.realloc(p, l, n)
    }
}

#[inline]
pub fn allocs() -> u64 {
    ALLOCS.with(|c| c.get())
}
