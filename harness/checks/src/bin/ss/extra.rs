//! Further modes of the substring engine: packed-pair pair spaces (C11/C12),
//! the documented panic (C14), pair selection (C19), is_equal & co (C18),
//! searches with a needle that differs from the construction needle (C05),
//! prefilter-history haystacks (C10).

use mcore::{arena::Arena, enumr, guarded, hex, oracle, par, Args, Report, Violation};
use memchr::arch::all::packedpair::{HeuristicFrequencyRank, Pair};
use memchr::arch::all::{is_equal, is_equal_raw, is_prefix, is_suffix};
use serde_json::{json, Map, Value};

use crate::spaces::{self, AllStrings};
use crate::subj::{self, Kind, Sem};
use crate::{build_all, check_hay, replay_argv, show, Ctx, Place};

pub fn dispatch(
    mode: &str,
    args: &Args,
    thorough: bool,
    seed: u64,
    total: &mut Report,
    bounds: &mut Map<String, Value>,
) -> bool {
    match mode {
        "pp-pairs" => pp_pairs(args, thorough, seed, total, bounds),
        "pp-real" => pp_real(args, thorough, seed, total, bounds),
        "pp-panic" => pp_panic(args, thorough, seed, total, bounds),
        "pairs" => pairs(args, thorough, total, bounds),
        "equal" => equal(args, thorough, total, bounds),
        "wrong-needle" => wrong_needle(args, thorough, seed, total, bounds),
        "memchr-alloc" => memchr_alloc(args, thorough, total, bounds),
        "pf" => pf(args, thorough, seed, total, bounds),
        "sf" => sf(args, thorough, seed, total, bounds),
        "nl" => nl(args, thorough, seed, total, bounds),
        "long" => long(args, thorough, seed, total, bounds),
        "aliased" => aliased(args, thorough, seed, total, bounds),
        "grid" => grid(args, thorough, seed, total, bounds),
        "lgrid" => lgrid(args, thorough, seed, total, bounds),
        _ => return false,
    }
    true
}

fn all_pairs(needle: &[u8]) -> Vec<Pair> {
    let mut v = vec![];
    let m = needle.len().min(255);
    for i in 0..m {
        for j in 0..m {
            if let Some(p) = Pair::with_indices(needle, i as u8, j as u8) {
                v.push(p);
            }
        }
    }
    v
}

/// (a) scaled-down vectors: every needle over a small alphabet, every valid
/// (index1, index2), every haystack over {a,b} of every length from
/// min_haystack_len to min+extra. find and find_prefilter.
fn pp_pairs(args: &Args, thorough: bool, seed: u64, total: &mut Report, bounds: &mut Map<String, Value>) {
    let widths: Vec<usize> = args.str("widths", "2,4").split(',').map(|x| x.parse().unwrap()).collect();
    for &n in &widths {
        let letters: &[u8] = if thorough || n == 2 { b"abc" } else { b"ab" };
        let nmax = args.num("nmax", if n == 2 { 5 } else { 4 }) as usize;
        let extra = args.num("extra", if n == 2 { 8 } else if thorough { 10 } else { 7 }) as usize;
        let needles = AllStrings { letters: letters.to_vec(), minlen: 2, maxlen: nmax }.all();
        let kinds = [Kind::PpVn(n), Kind::PfVn(n)];
        let rep = par::run_items(&needles, |_, needle, r| {
            let mut ctx = Ctx::new();
            ctx.set_needle(needle);
            for pair in all_pairs(needle) {
                let subjects = build_all(r, &kinds, needle, Some(pair), seed);
                let min = subjects[0].built.pp_min_len().unwrap();
                let hays = AllStrings { letters: b"ab".to_vec(), minlen: min, maxlen: min + extra };
                hays.for_range(0, hays.total(), |idx, h| {
                    check_hay(&mut ctx, r, &subjects, needle, h, Place::Plain, (idx % 8) as usize, Some(pair), idx);
                });
                // two occurrences (or an occurrence and a bare pair hit) at
                // every distance, behind every lead of up to 12 vectors: long
                // haystacks with more than one candidate
                let mut h: Vec<u8> = vec![];
                let mut idx = 1u64 << 40;
                for pl in 0..=12 * n {
                    for gap in 0..=2 * n + 1 {
                        for second in 0..2 {
                            for pr in [0usize, 9 * n] {
                                h.clear();
                                h.extend(std::iter::repeat(b'#').take(pl));
                                h.extend_from_slice(needle);
                                h.extend(std::iter::repeat(b'#').take(gap));
                                if second == 0 {
                                    h.extend_from_slice(needle);
                                } else {
                                    // only the pair bytes of a second occurrence
                                    let mut decoy = vec![b'#'; needle.len()];
                                    decoy[pair.index1() as usize] = needle[pair.index1() as usize];
                                    decoy[pair.index2() as usize] = needle[pair.index2() as usize];
                                    h.extend_from_slice(&decoy);
                                }
                                h.extend(std::iter::repeat(b'#').take(pr));
                                if h.len() >= min {
                                    idx += 1;
                                    check_hay(&mut ctx, r, &subjects, needle, &h, Place::Plain, (idx % 8) as usize, Some(pair), idx);
                                }
                            }
                        }
                    }
                }
            }
        });
        total.merge(rep);
        bounds.insert(format!("pp-pairs/vn{}", n), json!({"needle_letters": String::from_utf8_lossy(letters), "needle_len": [2, nmax], "pairs": "all valid (index1,index2), both orders", "haystack_letters": "ab", "haystack_len": format!("min_haystack_len ..= min+{}", extra)}));
    }
}

fn pair_set(needle: &[u8]) -> Vec<Pair> {
    let m = needle.len();
    if m <= 6 {
        return all_pairs(needle);
    }
    let top = (m - 1).min(254);
    let mut cand = vec![
        (0, 1), (1, 0), (0, top), (top, 0), (top - 1, top), (top, top - 1), (m / 2, m / 2 + 1), (m / 2, 0), (3, top),
    ];
    if m > 254 {
        cand.push((254, 3));
        cand.push((3, 254));
        cand.push((253, 254));
    }
    let mut v: Vec<Pair> = vec![];
    for (i, j) in cand {
        if let Some(p) = Pair::with_indices(needle, i as u8, j as u8) {
            if !v.iter().any(|q| q.index1() == p.index1() && q.index2() == p.index2()) {
                v.push(p);
            }
        }
    }
    v
}

/// (b) real vector widths and the portable prefilter: needles 2..=40 and
/// {255,256,300}; a set of pairs incl. reversed and far-apart ones; haystacks
/// pad_l + needle + pad_r where the left pad carries partial pair hits.
fn pp_real(args: &Args, thorough: bool, seed: u64, total: &mut Report, bounds: &mut Map<String, Value>) {
    let kinds = crate::parse_kinds_pub(&args.str(
        "subjects",
        "pp-sse2,pf-sse2,pp-avx2,pf-avx2,pf-portable,pp-vn8,pf-vn8,pp-vn16,pf-vn16",
    ));
    let maxpad = args.num("maxpad", if thorough { 70 } else { 40 }) as usize;
    let mut lens: Vec<usize> = (2..=if thorough { 40 } else { 24 }).collect();
    lens.extend_from_slice(if thorough { &[64, 255, 256, 300] } else { &[33, 255, 256] });
    let mut needles: Vec<Vec<u8>> = vec![];
    for &l in &lens {
        needles.push((0..l).map(|i| b'a' + (i % 23) as u8).collect()); // mostly distinct letters
        needles.push((0..l).map(|i| if i % 3 == 0 { b'a' } else { b'b' }).collect()); // binary, periodic
        let mut v = vec![b'a'; l];
        v[l - 1] = b'b';
        needles.push(v); // a^(l-1) b
    }
    let rep = par::run_items(&needles, |_, needle, r| {
        let mut ctx = Ctx::new();
        ctx.set_needle(needle);
        let m = needle.len();
        let mut h: Vec<u8> = vec![];
        for pair in pair_set(needle) {
            let subjects = build_all(r, &kinds, needle, Some(pair), seed);
            let (i1, i2) = (pair.index1() as usize, pair.index2() as usize);
            let (b1, b2) = (needle[i1], needle[i2]);
            let mut order = 0u64;
            // two occurrences / an occurrence followed by a bare pair hit,
            // behind leads of up to 12 vectors of 32 bytes
            for pl in (0..=400usize).step_by(if thorough { 1 } else { 3 }) {
                for gap in [0usize, 1, 7, 15, 16, 17, 31, 32, 33] {
                    for second in 0..2 {
                        h.clear();
                        h.extend(std::iter::repeat(b'.').take(pl));
                        h.extend_from_slice(needle);
                        h.extend(std::iter::repeat(b'.').take(gap));
                        if second == 0 {
                            h.extend_from_slice(needle);
                        } else {
                            let mut decoy = vec![b'.'; m];
                            decoy[i1] = b1;
                            decoy[i2] = b2;
                            h.extend_from_slice(&decoy);
                        }
                        h.extend_from_slice(&[b'.'; 40]);
                        order += 1;
                        check_hay(&mut ctx, r, &subjects, needle, &h, Place::Plain, (pl + gap) % 16, Some(pair), order);
                    }
                }
            }
            for variant in 0..5 {
                for pl in 0..=maxpad {
                    let prs: Vec<usize> = if variant == 0 { (0..=maxpad).collect() } else { vec![0, 1, 15, 16, 31, 33] };
                    for &pr in &prs {
                        h.clear();
                        h.extend(std::iter::repeat(b'.').take(pl));
                        match variant {
                            1 => (0..pl).step_by(3).for_each(|p| h[p] = b1), // byte1 without byte2
                            2 => (0..pl).step_by(2).for_each(|p| h[p] = b2), // byte2 without byte1
                            3 => {
                                // false candidates: both pair bytes at the right distance
                                let mut p = 0;
                                while p + i1.max(i2) < pl {
                                    h[p + i1] = b1;
                                    h[p + i2] = b2;
                                    p += 5;
                                }
                            }
                            _ => {}
                        }
                        if variant == 4 {
                            // no true match: needle with its last byte changed
                            h.extend_from_slice(&needle[..m - 1]);
                            h.push(b'#');
                        } else {
                            h.extend_from_slice(needle);
                        }
                        h.extend(std::iter::repeat(b'.').take(pr));
                        order += 1;
                        check_hay(&mut ctx, r, &subjects, needle, &h, Place::Plain, (pl + pr) % 16, Some(pair), order);
                    }
                }
            }
        }
    });
    total.merge(rep);
    bounds.insert("pp-real".into(), json!({"needle_lengths": lens, "needle_shapes": ["23 cycling letters", "abb periodic", "a^(m-1)b"], "pairs": "all for m<=6, else {(0,1),(1,0),(0,top),(top,0),(top-1,top),(top,top-1),(m/2,m/2+1),(m/2,0),(3,top),(254,3),(3,254),(253,254)}", "max_pad": maxpad, "variants": ["filler", "byte1 only planted", "byte2 only planted", "false candidates every 5 bytes", "near miss (no match)"]}));
}

/// The documented panic of the packed-pair finders must be exact.
fn pp_panic(args: &Args, thorough: bool, seed: u64, total: &mut Report, bounds: &mut Map<String, Value>) {
    let kinds = crate::parse_kinds_pub(&args.str(
        "subjects",
        "pp-sse2,pf-sse2,pp-avx2,pf-avx2,pp-vn2,pf-vn2,pp-vn4,pf-vn4,pp-vn8,pf-vn8,pp-vn16,pf-vn16",
    ));
    let maxn = if thorough { 40 } else { 20 };
    let mut needles: Vec<Vec<u8>> = vec![];
    for l in 2..=maxn {
        needles.push((0..l).map(|i| b'a' + (i % 23) as u8).collect());
        needles.push(vec![b'a'; l]);
    }
    needles.push((0..256).map(|i| (i % 251) as u8).collect());
    let rep = par::run_items(&needles, |_, needle, r| {
        let mut ctx = Ctx::new();
        ctx.set_needle(needle);
        for pair in pair_set(needle) {
            let subjects = build_all(r, &kinds, needle, Some(pair), seed);
            for s in &subjects {
                let min = match s.built.pp_min_len() {
                    Some(m) => m,
                    None => continue,
                };
                let v = match &s.kind {
                    Kind::PpVn(n) | Kind::PfVn(n) => *n,
                    Kind::PpAvx2 | Kind::PfAvx2 => 32,
                    _ => 16,
                };
                for hl in 0..=min + v + 2 {
                    for content in 0..2 {
                        // content 0: filler; content 1: the needle repeated (dense candidates)
                        let data: Vec<u8> = if content == 0 {
                            vec![b'.'; hl]
                        } else {
                            needle.iter().copied().cycle().take(hl).collect()
                        };
                        let hay = ctx.place(Place::Plain, hl % 16, &data);
                        r.states += 1;
                        r.evaluations += 1;
                        r.bump(&format!("calls/{}", s.kind.name()));
                        let got = guarded(|| s.built.pp_run_unguarded(hay));
                        #[cfg(feature = "vn")]
                        let _ = memchr::verif::take_stats();
                        let must_panic = hl < min;
                        if must_panic {
                            r.nontrivial += 1;
                            r.bump("documented panic expected");
                        }
                        let problem = match (&got, must_panic) {
                            (Err(msg), true) if msg.contains("haystack too small") => None,
                            (Err(msg), true) => Some(("panic", format!("panicked, but not with the documented message: {}", msg))),
                            (Err(msg), false) => Some(("panic", format!("spurious panic on a haystack of {} >= min_haystack_len {}: {}", hl, min, msg))),
                            (Ok(_), true) => Some(("panic", format!("did NOT panic on a haystack of {} < min_haystack_len {}", hl, min))),
                            (Ok(p), false) => crate::judge(s.kind.sem(), *p, needle, hay, s.built.pair()),
                        };
                        if let Some((class, what)) = problem {
                            r.violation(Violation {
                                class: class.into(),
                                key: ((needle.len() as u64) << 32) | hl as u64,
                                what: format!("[{}] {} needle={} pair=({},{}) haystack len {}: {}", class, s.kind.name(), show(needle), pair.index1(), pair.index2(), hl, what),
                                replay_argv: vec!["pp-panic".into(), "--subjects".into(), s.kind.name()],
                                detail: json!({"class": class, "subject": s.kind.name(), "needle": hex(needle), "pair": [pair.index1(), pair.index2()], "haystack_len": hl, "min_haystack_len": min}),
                            });
                        } else if must_panic {
                            r.sample(((needle.len() as u64) << 32) | hl as u64, || json!({"subject": s.kind.name(), "needle": show(needle), "pair": [pair.index1(), pair.index2()], "haystack_len": hl, "min_haystack_len": min, "observed": "documented panic"}));
                        }
                    }
                }
            }
        }
    });
    total.merge(rep);
    bounds.insert("pp-panic".into(), json!({"needle_len": [2, maxn], "plus": [256], "haystack_len": "0 ..= min_haystack_len + V + 2", "contents": ["filler", "needle repeated"], "pairs": "pair_set"}));
}

struct WoRanker<'a> {
    letters: &'a [u8],
    ranks: &'a [u8],
}

impl<'a> HeuristicFrequencyRank for WoRanker<'a> {
    fn rank(&self, b: u8) -> u8 {
        match self.letters.iter().position(|&l| l == b) {
            Some(i) => self.ranks[i] * 60,
            None => 128,
        }
    }
}

fn check_pair(r: &mut Report, needle: &[u8], p: Option<Pair>, what: &str) {
    r.evaluations += 1;
    let problem = match p {
        None if needle.len() >= 2 => Some(format!("returned None for a needle of {} bytes", needle.len())),
        Some(_) if needle.len() < 2 => Some(format!("returned Some for a needle of {} bytes", needle.len())),
        Some(p) => {
            let (i1, i2) = (p.index1() as usize, p.index2() as usize);
            if i1 == i2 {
                Some(format!("offsets are equal ({})", i1))
            } else if i1 >= needle.len() || i2 >= needle.len() {
                Some(format!("offset outside the needle: ({},{}) for {} bytes", i1, i2, needle.len()))
            } else if i1 > 254 || i2 > 254 {
                Some(format!("offset above 254: ({},{})", i1, i2))
            } else {
                None
            }
        }
        None => None,
    };
    if let Some(w) = problem {
        r.violation(Violation {
            class: "wrong_result".into(),
            key: needle.len() as u64,
            what: format!("[wrong_result] {} on needle {} ({} bytes): {}", what, show(needle), needle.len(), w),
            replay_argv: vec!["pairs".into()],
            detail: json!({"class": "wrong_result", "what": what, "needle": hex(needle)}),
        });
    }
}

/// C19: pair selection for every needle x every ranker behaviour; with_indices
/// for every (i1,i2) in 0..=255 squared; finders echo their pair.
fn pairs(args: &Args, thorough: bool, total: &mut Report, bounds: &mut Map<String, Value>) {
    let _ = args;
    let maxl = if thorough { 10 } else { 8 };
    // (1) all needles over <=3 (thorough: 4) letters x all weak orders of ranks
    let maxletters = if thorough { 4 } else { 3 };
    for nl in 1..=maxletters {
        let letters: Vec<u8> = b"abcd"[..nl].to_vec();
        let orders = enumr::weak_orders(nl);
        let needles = AllStrings { letters: letters.clone(), minlen: 0, maxlen: if nl == 4 { 9 } else { maxl } }.all();
        let rep = par::run_chunks(needles.len() as u64, 64, |lo, hi, r| {
            for ni in lo..hi {
                let needle = &needles[ni as usize];
                r.states += 1;
                for ranks in &orders {
                    let rk = WoRanker { letters: &letters, ranks };
                    let got = guarded(|| Pair::with_ranker(needle, &rk));
                    match got {
                        Err(msg) => r.violation(Violation {
                            class: "panic".into(),
                            key: needle.len() as u64,
                            what: format!("[panic] Pair::with_ranker(needle={}, ranks {:?}) panicked: {}", show(needle), ranks, msg),
                            replay_argv: vec!["pairs".into()],
                            detail: json!({"class": "panic", "needle": hex(needle), "ranks": ranks}),
                        }),
                        Ok(p) => {
                            check_pair(r, needle, p, &format!("Pair::with_ranker(ranks {:?})", ranks));
                            if needle.len() >= 2 {
                                r.nontrivial += 1;
                            }
                            // every finder built from the pair echoes it
                            if let (Some(p), true) = (p, needle.len() <= 6) {
                                echo_pair(r, needle, p);
                            }
                        }
                    }
                }
                let got = guarded(|| Pair::new(needle));
                match got {
                    Ok(p) => check_pair(r, needle, p, "Pair::new"),
                    Err(msg) => r.violation(Violation {
                        class: "panic".into(),
                        key: needle.len() as u64,
                        what: format!("[panic] Pair::new({}) panicked: {}", show(needle), msg),
                        replay_argv: vec!["pairs".into()],
                        detail: json!({"class": "panic", "needle": hex(needle)}),
                    }),
                }
            }
        });
        total.merge(rep);
    }
    // (2) structured long needles x named rankers
    let lens: Vec<usize> = if thorough {
        (2..=300).chain([511, 512, 513, 600, 1000]).collect()
    } else {
        vec![2, 3, 254, 255, 256, 257, 300, 600]
    };
    let rankers = ["default", "zero", "max255", "identity", "reversed", "needle-common", "needle-rare", "perm1", "perm2", "perm3", "perm4"];
    let mut needles: Vec<Vec<u8>> = vec![];
    for &l in &lens {
        needles.push(vec![b'a'; l]);
        needles.push((0..l).map(|i| if i % 2 == 0 { b'a' } else { b'b' }).collect());
        needles.push((0..l).map(|i| (i % 256) as u8).collect());
        needles.push((0..l).map(|i| (255 - (i % 256)) as u8).collect());
        // the rarest bytes (under identity) sit at the very end
        needles.push((0..l).map(|i| if i + 2 >= l { 0u8 + (l - i) as u8 } else { 200 }).collect());
    }
    let rep = par::run_items(&needles, |_, needle, r| {
        r.states += 1;
        for rid in rankers {
            let rk = subj::ranker_or_default(rid, needle, 0);
            let got = guarded(|| match &rk {
                None => Pair::new(needle),
                Some(t) => Pair::with_ranker(needle, t),
            });
            r.nontrivial += 1;
            match got {
                Err(msg) => r.violation(Violation {
                    class: "panic".into(),
                    key: needle.len() as u64,
                    what: format!("[panic] Pair::with_ranker({} bytes, ranker {}) panicked: {}", needle.len(), rid, msg),
                    replay_argv: vec!["pairs".into()],
                    detail: json!({"class": "panic", "needle": hex(needle), "ranker": rid}),
                }),
                Ok(p) => {
                    check_pair(r, needle, p, &format!("Pair::with_ranker(ranker {})", rid));
                    if let Some(p) = p {
                        echo_pair(r, needle, p);
                    }
                }
            }
        }
    });
    total.merge(rep);
    // (3) with_indices: every (i1, i2) in 0..=255 squared
    // every needle length up to 258 (thorough: 600), so that every
    // (length, index1, index2) combination around the u8 limits occurs
    let wl: Vec<usize> = if thorough { (0..=600).collect() } else { (0..=258).chain([300, 600]).collect() };
    let rep = par::run_items(&wl, |_, &l, r| {
        let needle: Vec<u8> = (0..l).map(|i| (i % 256) as u8).collect();
        for i1 in 0..=255u8 {
            for i2 in 0..=255u8 {
                r.evaluations += 1;
                r.states += 1;
                let got = Pair::with_indices(&needle, i1, i2);
                let should = i1 != i2 && (i1 as usize) < l && (i2 as usize) < l;
                if should {
                    r.nontrivial += 1;
                }
                let bad = match got {
                    None => should,
                    Some(p) => !should || p.index1() != i1 || p.index2() != i2,
                };
                // finders built from accepted pairs at the extremes of the
                // index range (and a diagonal sample) must construct, echo
                // the pair and report the documented minimum length
                if let Some(p) = got {
                    let edge = |i: u8| i <= 1 || i >= 250 || (i as usize) + 2 >= l;
                    if (edge(i1) && edge(i2)) || (i1 as usize * 7 + i2 as usize) % 97 == 0 {
                        if let Err(msg) = guarded(|| echo_pair(r, &needle, p)) {
                            r.violation(Violation {
                                class: "panic".into(),
                                key: l as u64,
                                what: format!("[panic] building finders from Pair::with_indices({}-byte needle, {}, {}) panicked: {}", l, i1, i2, msg),
                                replay_argv: vec!["pairs".into()],
                                detail: json!({"class": "panic", "needle_len": l, "index1": i1, "index2": i2}),
                            });
                        }
                    }
                }
                if bad {
                    r.violation(Violation {
                        class: "wrong_result".into(),
                        key: l as u64,
                        what: format!("[wrong_result] Pair::with_indices({}-byte needle, {}, {}) returned {:?}; must accept exactly distinct in-range offsets", l, i1, i2, got.map(|p| (p.index1(), p.index2()))),
                        replay_argv: vec!["pairs".into()],
                        detail: json!({"class": "wrong_result", "needle_len": l, "index1": i1, "index2": i2}),
                    });
                }
            }
        }
    });
    total.merge(rep);
    total.sample(0, || json!({"needle": "\"abcab\"", "ranks": "every weak order on {a,b,c}", "check": "None iff len<2; else distinct offsets < len and <= 254; finders echo the pair"}));
    bounds.insert("pairs".into(), json!({"weak_order_needles": {"letters": if thorough { "a | ab | abc | abcd (len <= 9)" } else { "a | ab | abc" }, "max_len": maxl}, "structured_lengths": lens, "rankers": rankers, "with_indices": {"needle_lengths": format!("every length {}..={} (+300, 600)", wl[0], if thorough { 600 } else { 258 }), "indices": "0..=255 squared"}}));
}

fn echo_pair(r: &mut Report, needle: &[u8], p: Pair) {
    let mut bad: Vec<String> = vec![];
    let same = |q: &Pair| q.index1() == p.index1() && q.index2() == p.index2();
    let maxidx = p.index1().max(p.index2()) as usize;
    #[cfg(feature = "x86")]
    {
        use memchr::arch::x86_64::{avx2::packedpair as a, sse2::packedpair as s};
        match s::Finder::with_pair(needle, p) {
            None => bad.push("sse2::Finder::with_pair returned None".into()),
            Some(f) => {
                if !same(f.pair()) {
                    bad.push("sse2 finder reports a different pair".into());
                }
                if f.min_haystack_len() != needle.len().max(maxidx + 16) {
                    bad.push(format!("sse2 min_haystack_len {} != max(len, maxidx+16)", f.min_haystack_len()));
                }
            }
        }
        match a::Finder::with_pair(needle, p) {
            None => bad.push("avx2::Finder::with_pair returned None".into()),
            Some(f) => {
                if !same(f.pair()) {
                    bad.push("avx2 finder reports a different pair".into());
                }
                if f.min_haystack_len() != needle.len().max(maxidx + 16) {
                    bad.push(format!("avx2 min_haystack_len {} != max(len, maxidx+16) (it defers to its sse2 half)", f.min_haystack_len()));
                }
            }
        }
    }
    #[cfg(feature = "vn")]
    for n in [2usize, 4, 8, 16] {
        match subj::VnPp::with_pair(n, needle, p) {
            None => bad.push(format!("VN<{}> with_pair returned None", n)),
            Some(f) => {
                if !same(&f.pair()) {
                    bad.push(format!("VN<{}> finder reports a different pair", n));
                }
                if f.min_haystack_len() != needle.len().max(maxidx + n) {
                    bad.push(format!("VN<{}> min_haystack_len {} != max(len, maxidx+{})", n, f.min_haystack_len(), n));
                }
            }
        }
    }
    match memchr::arch::all::packedpair::Finder::with_pair(needle, p) {
        None => bad.push("portable Finder::with_pair returned None".into()),
        Some(f) => {
            if !same(f.pair()) {
                bad.push("portable finder reports a different pair".into());
            }
        }
    }
    r.evaluations += 1;
    for w in bad {
        r.violation(Violation {
            class: "wrong_result".into(),
            key: needle.len() as u64,
            what: format!("[wrong_result] pair ({},{}) on {}-byte needle: {}", p.index1(), p.index2(), needle.len(), w),
            replay_argv: vec!["pairs".into()],
            detail: json!({"class": "wrong_result", "needle": hex(needle), "pair": [p.index1(), p.index2()]}),
        });
    }
}

/// C18: is_equal / is_prefix / is_suffix / is_equal_raw.
fn equal(args: &Args, thorough: bool, total: &mut Report, bounds: &mut Map<String, Value>) {
    let _ = args;
    let maxl = if thorough { 14 } else { 10 };
    // (1) all pairs over {a,b} up to maxl
    let strs = AllStrings { letters: b"ab".to_vec(), minlen: 0, maxlen: maxl }.all();
    let rep = par::run_chunks(strs.len() as u64, 8, |lo, hi, r| {
        let mut ax = Arena::plain(1);
        let mut ay = Arena::plain(1);
        for xi in lo..hi {
            let x = &strs[xi as usize];
            for y in &strs {
                let px = ax.place_fill(64 + (xi as usize % 8), x, b'a', b'a', 16);
                let py = ay.place_fill(64 + (y.len() % 8), y, b'a', b'a', 16);
                check_equal(r, px, py, "plain");
            }
        }
    });
    total.merge(rep);
    // (2) equal content and every single-byte difference, len 0..=64, all 8x8
    // relative alignments, and both operands flush against guard pages
    let maxlen = if thorough { 300 } else { 64 };
    let lens: Vec<usize> = (0..=maxlen).collect();
    let rep = par::run_items(&lens, |_, &l, r| {
        let mut ax = Arena::plain(1);
        let mut ay = Arena::plain(1);
        let mut gx = Arena::guarded(1);
        let mut gy = Arena::guarded(1);
        let base: Vec<u8> = (0..l).map(|i| b'a' + (i % 26) as u8).collect();
        for diff in 0..=l {
            // diff == l means "no difference"
            for delta in [1u8, 0x80, 0xff] {
                let mut y = base.clone();
                if diff < l {
                    y[diff] = y[diff].wrapping_add(delta);
                } else if delta != 1 {
                    continue;
                }
                for a1 in 0..8 {
                    for a2 in 0..8 {
                        let px = ax.place_fill(64 + a1, &base, b'#', b'#', 16);
                        let py = ay.place_fill(64 + a2, &y, b'#', b'#', 16);
                        check_equal(r, px, py, "plain");
                    }
                }
                // flush against the trailing guard page / directly after the leading one
                let ox = gx.flush_end(l);
                let oy = gy.flush_end(l);
                let px = gx.place_fill(ox, &base, b'#', b'#', 0);
                let py = gy.place_fill(oy, &y, b'#', b'#', 0);
                check_equal(r, px, py, "guard-end");
                let px = gx.place_fill(0, &base, b'#', b'#', 0);
                let py = gy.place_fill(0, &y, b'#', b'#', 0);
                check_equal(r, px, py, "guard-start");
                // unequal lengths: |x| - |y| in -3..=3
                for cut in 1..=3usize.min(l) {
                    let px = ax.place_fill(64, &base, b'#', b'#', 16);
                    let py = ay.place_fill(64, &y[..l - cut], b'#', b'#', 16);
                    check_equal(r, px, py, "plain");
                    check_equal(r, py, px, "plain");
                    // y is a proper suffix
                    let py = ay.place_fill(64, &y[cut..], b'#', b'#', 16);
                    check_equal(r, px, py, "plain");
                    let oy = gy.flush_end(l - cut);
                    let py = gy.place_fill(oy, &y[..l - cut], b'#', b'#', 0);
                    let ox = gx.flush_end(l);
                    let px = gx.place_fill(ox, &base, b'#', b'#', 0);
                    check_equal(r, px, py, "guard-end");
                }
            }
        }
    });
    total.merge(rep);
    // (2b) all pairs over {a,b,c} (and thorough: {a,b,c,d}) - two differing
    // positions can carry equal or different XOR masks
    for (letters, ml) in [(b"abc".to_vec(), if thorough { 8 } else { 6 }), (b"\x00\x01\x80\xff".to_vec(), if thorough { 6 } else { 5 })] {
        let strs = AllStrings { letters, minlen: 0, maxlen: ml }.all();
        let rep = par::run_chunks(strs.len() as u64, 8, |lo, hi, r| {
            let mut ax = Arena::plain(1);
            let mut ay = Arena::plain(1);
            for xi in lo..hi {
                let x = &strs[xi as usize];
                for y in &strs {
                    let px = ax.place_fill(64 + (xi as usize % 8), x, b'a', b'a', 16);
                    let py = ay.place_fill(64 + (y.len() % 8), y, b'a', b'a', 16);
                    check_equal(r, px, py, "plain");
                }
            }
        });
        total.merge(rep);
    }
    // (2c) every PAIR of differing positions (same and different masks) at
    // every length, operands at two relative alignments and flush against
    // the guard page
    let maxlen2 = if thorough { 160 } else { 64 };
    let lens2: Vec<usize> = (2..=maxlen2).collect();
    let rep = par::run_items(&lens2, |_, &l, r| {
        let mut ax = Arena::plain(1);
        let mut ay = Arena::plain(1);
        let mut gx = Arena::guarded(1);
        let mut gy = Arena::guarded(1);
        let base: Vec<u8> = (0..l).map(|i| b'a' + (i % 26) as u8).collect();
        for d1 in 0..l {
            for d2 in d1 + 1..l {
                for (m1, m2) in [(2u8, 2u8), (2, 1), (0x80, 0x80), (0xff, 0x01)] {
                    let mut y = base.clone();
                    y[d1] ^= m1;
                    y[d2] ^= m2;
                    for (a1, a2) in [(0, 0), (1, 3)] {
                        let px = ax.place_fill(64 + a1, &base, b'#', b'#', 16);
                        let py = ay.place_fill(64 + a2, &y, b'#', b'#', 16);
                        check_equal(r, px, py, "plain");
                    }
                    let ox = gx.flush_end(l);
                    let oy = gy.flush_end(l);
                    let px = gx.place_fill(ox, &base, b'#', b'#', 0);
                    let py = gy.place_fill(oy, &y, b'#', b'#', 0);
                    check_equal(r, px, py, "guard-end");
                }
            }
        }
    });
    total.merge(rep);
    bounds.insert("equal-double-difference".into(), json!({"len": [2, maxlen2], "every pair of positions": true, "xor masks": ["(2,2)", "(2,1)", "(80,80)", "(ff,01)"], "all pairs over abc up to": if thorough { 8 } else { 6 }, "all pairs over {00,01,80,ff} up to": if thorough { 6 } else { 5 }}));
    // (3) aliased operands: both slices are views of ONE buffer (sharing a
    // start, an end, overlapping, nested, adjacent, or identical)
    let bufs = AllStrings { letters: b"ab".to_vec(), minlen: 0, maxlen: if thorough { 9 } else { 8 } }.all();
    let rep = par::run_chunks(bufs.len() as u64, 4, |lo, hi, r| {
        let mut ar = Arena::plain(1);
        for bi in lo..hi {
            let b = &bufs[bi as usize];
            let n = b.len();
            let placed: &[u8] = ar.place_fill(64 + (bi as usize % 8), b, b'a', b'a', 16);
            for i in 0..=n {
                for j in i..=n {
                    for k in 0..=n {
                        for l in k..=n {
                            check_equal(r, &placed[i..j], &placed[k..l], "aliased");
                        }
                    }
                }
            }
        }
    });
    total.merge(rep);
    bounds.insert("equal-aliased".into(), json!({"buffers_over_ab_up_to": if thorough { 9 } else { 8 }, "operands": "every pair of sub-slices [i..j], [k..l] of the same buffer"}));
    bounds.insert("equal".into(), json!({"all_pairs_over_ab_up_to": maxl, "single_byte_differences": {"len": [0, maxlen], "every position": true, "deltas": ["+1", "+0x80", "+0xff"], "alignments": "8 x 8", "guard": ["both operands flush against the trailing PROT_NONE page", "both directly after the leading one"]}, "unequal_lengths": "|x|-|y| in -3..=3"}));
}

fn check_equal(r: &mut Report, x: &[u8], y: &[u8], place: &str) {
    r.states += 1;
    let res = guarded(|| {
        let e = is_equal(x, y);
        let p = is_prefix(x, y);
        let s = is_suffix(x, y);
        let raw = if x.len() == y.len() { Some(unsafe { is_equal_raw(x.as_ptr(), y.as_ptr(), x.len()) }) } else { None };
        (e, p, s, raw)
    });
    r.evaluations += 4;
    if x.len() >= 4 || y.len() >= 4 {
        r.nontrivial += 1;
    }
    let problem = match res {
        Err(msg) => Some(("panic", format!("panicked: {}", msg))),
        Ok((e, p, s, raw)) => {
            if e != (x == y) {
                Some(("wrong_result", format!("is_equal returned {} but x == y is {}", e, x == y)))
            } else if p != x.starts_with(y) {
                Some(("wrong_result", format!("is_prefix returned {} but starts_with is {}", p, x.starts_with(y))))
            } else if s != x.ends_with(y) {
                Some(("wrong_result", format!("is_suffix returned {} but ends_with is {}", s, x.ends_with(y))))
            } else if raw.is_some() && raw != Some(x == y) {
                Some(("wrong_result", format!("is_equal_raw returned {:?} but x == y is {}", raw, x == y)))
            } else {
                None
            }
        }
    };
    if let Some((class, what)) = problem {
        r.violation(Violation {
            class: class.into(),
            key: ((x.len().max(y.len())) as u64) << 8,
            what: format!("[{}] x={} y={} ({}): {}", class, show(x), show(y), place, what),
            replay_argv: vec!["equal".into()],
            detail: json!({"class": class, "x": hex(x), "y": hex(y), "place": place}),
        });
    } else if x.len() == 7 && y.len() == 7 {
        r.sample(((x.as_ptr() as usize % 8) as u64) << 8 | (x != y) as u64, || json!({"x": show(x), "y": show(y), "x_align": x.as_ptr() as usize % 8, "y_align": y.as_ptr() as usize % 8, "place": place}));
    }
}

/// C05: safe calls whose search-time needle differs from the construction
/// needle. Any answer or panic is acceptable; only the memory monitors
/// (guard pages, checked VN loads) decide.
fn wrong_needle(args: &Args, thorough: bool, seed: u64, total: &mut Report, bounds: &mut Map<String, Value>) {
    let _ = (args, seed);
    use memchr::arch::all::{rabinkarp, twoway};
    let built_needles: Vec<Vec<u8>> = vec![b"ab".to_vec(), b"abcab".to_vec(), b"aaaaaaab".to_vec(), (0..40).map(|i| b'a' + (i % 7) as u8).collect()];
    let maxh = if thorough { 80 } else { 48 };
    let rep = par::run_items(&built_needles, |_, bn, r| {
        let mut g = Arena::guarded(1);
        let mut gn = Arena::guarded(1);
        // search-time needles: shorter, longer, same length different bytes, empty, longer than any haystack
        let mut others: Vec<Vec<u8>> = vec![vec![], bn[..1].to_vec(), bn[..bn.len() - 1].to_vec(), bn.iter().map(|b| b ^ 1).collect()];
        let mut longer = bn.clone();
        longer.extend_from_slice(b"xyz");
        others.push(longer);
        others.push(vec![b'a'; 100]);
        let tw = twoway::Finder::new(bn);
        let twr = twoway::FinderRev::new(bn);
        let rk = rabinkarp::Finder::new(bn);
        let rkr = rabinkarp::FinderRev::new(bn);
        #[cfg(feature = "x86")]
        let (ps, pa) = (
            memchr::arch::x86_64::sse2::packedpair::Finder::new(bn),
            memchr::arch::x86_64::avx2::packedpair::Finder::new(bn),
        );
        for hl in 0..=maxh {
            for content in 0..3 {
                let data: Vec<u8> = match content {
                    0 => vec![b'a'; hl],
                    1 => bn.iter().copied().cycle().take(hl).collect(),
                    _ => (0..hl).map(|i| b'a' + (i % 3) as u8).collect(),
                };
                for place in [Place::GuardEnd, Place::GuardStart] {
                    for o in &others {
                        // the needle is also placed flush against a guard page
                        let no = gn.flush_end(o.len());
                        let n2: &[u8] = gn.place_fill(no, o, 0, 0, 0);
                        let off = if place == Place::GuardEnd { g.flush_end(hl) } else { 0 };
                        let hay: &[u8] = g.place_fill(off, &data, b'a', b'a', 0);
                        r.states += 1;
                        // Outcomes (value or panic) are deliberately ignored.
                        r.evaluations += 4;
                        let _ = guarded(|| tw.find(hay, n2));
                        let _ = guarded(|| twr.rfind(hay, n2));
                        let _ = guarded(|| rk.find(hay, n2));
                        let _ = guarded(|| rkr.rfind(hay, n2));
                        #[cfg(feature = "x86")]
                        {
                            if let Some(f) = &ps {
                                r.evaluations += 1;
                                let _ = guarded(|| f.find(hay, n2));
                            }
                            if let Some(f) = &pa {
                                r.evaluations += 1;
                                let _ = guarded(|| f.find(hay, n2));
                            }
                        }
                        r.nontrivial += 1;
                    }
                }
            }
        }
        r.sample(bn.len() as u64, || json!({"built_for": show(bn), "searched_with": others.iter().map(|o| show(o)).collect::<Vec<_>>(), "haystack_len": [0, maxh], "places": ["guard-end", "guard-start"], "oracle": "hardware fault only (any answer / panic accepted)"}));
    });
    total.merge(rep);
    bounds.insert("wrong-needle".into(), json!({"construction_needles": built_needles.iter().map(|n| show(n)).collect::<Vec<_>>(), "haystack_len": [0, maxh], "subjects": ["twoway fwd/rev", "rabinkarp fwd/rev", "sse2/avx2 packedpair find"]}));
    let _ = (oracle::find_sub, spaces::PADS, replay_argv, Sem::Fwd);
}

/// C17 for the memchr family: one-shot functions and iterators driven to
/// exhaustion (from both ends), and count(), with the allocation probe armed
/// around each call.
fn memchr_alloc(args: &Args, thorough: bool, total: &mut Report, bounds: &mut Map<String, Value>) {
    let _ = args;
    let lmax = if thorough { 14 } else { 12 };
    let mut lens: Vec<usize> = (0..=lmax).collect();
    lens.extend_from_slice(&[31, 32, 33, 64, 100, 257, 1000]);
    let rep = par::run_items(&lens, |_, &len, r| {
        let mut ar = Arena::plain(2);
        let (n1, n2, n3, other) = (0x00u8, 0x80u8, 0xffu8, 0x01u8);
        let n = if len <= lmax { enumr::pow(2, len as u32) } else { (len as u64 + 2).min(64) };
        let mut data = vec![other; len];
        for idx in 0..n {
            if len <= lmax {
                for i in 0..len {
                    data[i] = if idx >> i & 1 == 1 { [n1, n2, n3][i % 3] } else { other };
                }
            } else {
                for (i, b) in data.iter_mut().enumerate() {
                    // idx 0: no match; otherwise a match every idx bytes
                    *b = if idx > 0 && i as u64 % idx == 0 { [n1, n2, n3][i % 3] } else { other };
                }
            }
            let hay = ar.place_fill(64 + (idx as usize % 16), &data, n1, n1, 32);
            r.states += 1;
            let a0 = crate::alloc::allocs();
            let res = guarded(|| {
                let mut acc = 0usize;
                acc += memchr::memchr(n1, hay).unwrap_or(0);
                acc += memchr::memchr2(n1, n2, hay).unwrap_or(0);
                acc += memchr::memchr3(n1, n2, n3, hay).unwrap_or(0);
                acc += memchr::memrchr(n1, hay).unwrap_or(0);
                acc += memchr::memrchr2(n1, n2, hay).unwrap_or(0);
                acc += memchr::memrchr3(n1, n2, n3, hay).unwrap_or(0);
                acc += memchr::memchr_iter(n1, hay).count();
                let mut it = memchr::memchr_iter(n1, hay);
                while let (Some(a), b) = (it.next(), it.next_back()) {
                    acc += a + b.unwrap_or(0);
                }
                acc += memchr::memchr2_iter(n1, n2, hay).map(|x| x & 1).sum::<usize>();
                acc += memchr::memchr3_iter(n1, n2, n3, hay).rev().map(|x| x & 1).sum::<usize>();
                acc += memchr::memrchr_iter(n2, hay).map(|x| x & 1).sum::<usize>();
                acc += memchr::arch::all::memchr::One::new(n1).iter(hay).count();
                acc += memchr::arch::all::memchr::Three::new(n1, n2, n3).iter(hay).map(|x| x & 1).sum::<usize>();
                #[cfg(feature = "x86")]
                {
                    use memchr::arch::x86_64::{avx2::memchr as a, sse2::memchr as s};
                    acc += s::One::new(n1).map(|f| f.iter(hay).count()).unwrap_or(0);
                    acc += a::One::new(n1).map(|f| f.iter(hay).count()).unwrap_or(0);
                    acc += a::Two::new(n1, n2).map(|f| f.iter(hay).rev().map(|x| x & 1).sum::<usize>()).unwrap_or(0);
                }
                // substring iterators driven to exhaustion
                acc += memchr::memmem::find_iter(hay, &[n1, other][..]).map(|x| x & 1).sum::<usize>();
                acc += memchr::memmem::rfind_iter(hay, &[other, n1][..]).map(|x| x & 1).sum::<usize>();
                acc += memchr::memmem::find_iter(hay, &[][..]).count();
                acc
            });
            let a1 = crate::alloc::allocs();
            r.evaluations += 20;
            if len >= 16 {
                r.nontrivial += 1;
            }
            let problem = match res {
                Err(msg) => Some(("panic", format!("panicked: {}", msg))),
                Ok(_) if a1 != a0 => Some(("alloc", format!("made {} heap allocation(s)", a1 - a0))),
                Ok(_) => None,
            };
            if let Some((class, what)) = problem {
                r.violation(Violation {
                    class: class.into(),
                    key: len as u64,
                    what: format!("[{}] memchr family + iterators on haystack {} (len {}): {}", class, show(&data), len, what),
                    replay_argv: vec!["memchr-alloc".into()],
                    detail: json!({"class": class, "haystack": hex(&data)}),
                });
            }
        }
        r.sample(len as u64, || json!({"haystack_len": len, "calls": "memchr/2/3, memrchr/2/3, Memchr::count, double-ended drain, Memchr2/3 iterators, rev iterators, One/Two/Three iter() of swar/sse2/avx2, find_iter/rfind_iter to exhaustion", "oracle": "allocation counter delta == 0"}));
    });
    total.merge(rep);
    bounds.insert("memchr-alloc".into(), json!({"full_binary_len": [0, lmax], "long_lens": [31, 32, 33, 64, 100, 257, 1000]}));
}

/// C10: prefilter-history haystacks, built per (needle, ranker) from the pair
/// that ranker selects, searched by finders built with that ranker under
/// both prefilter settings (one-shot and complete iteration).
fn pf(args: &Args, thorough: bool, seed: u64, total: &mut Report, bounds: &mut Map<String, Value>) {
    let rankers: Vec<String> = args
        .str("rankers", "default,zero,max255,identity,reversed,needle-common,needle-rare,perm1,perm2")
        .split(',')
        .map(|s| s.to_string())
        .collect();
    let needles = spaces::pf_needles();
    let mut items: Vec<(usize, String)> = vec![];
    for ni in 0..needles.len() {
        for r in &rankers {
            items.push((ni, r.clone()));
        }
    }
    let rep = par::run_items(&items, |_, (ni, rid), r| {
        let needle = &needles[*ni];
        let pair = match subj::ranker_or_default(rid, needle, seed) {
            None => Pair::new(needle),
            Some(t) => Pair::with_ranker(needle, &t),
        }
        .expect("pair");
        let kinds = [
            Kind::Ranked(rid.clone(), true),
            Kind::Ranked(rid.clone(), false),
            Kind::RankedAll(rid.clone(), true),
            Kind::RankedAll(rid.clone(), false),
        ];
        let mut ctx = Ctx::new();
        ctx.set_needle(needle);
        let subjects = build_all(r, &kinds, needle, None, seed);
        let hays = spaces::pf_haystacks(needle, pair.index1() as usize, pair.index2() as usize, thorough);
        for (hi, h) in hays.iter().enumerate() {
            check_hay(&mut ctx, r, &subjects, needle, h, Place::Plain, hi % 16, None, hi as u64);
        }
    });
    total.merge(rep);
    bounds.insert("pf".into(), json!({"needles": needles.len(), "rankers": rankers, "grid": "prefix {0,100,1000[,400,20000]} x false candidates {0,49,50,51,70[,10,48,52,60]} x gap {1,2,5,7,8,9,12 [1..=12]} x match distance {none,0,7[,1,40]}, each followed by a second run and a second match", "built_from": "the pair the ranker selects for the needle"}));
}

/// SF: every short needle over a small alphabet against pairs of its own
/// near-occurrences separated by short gaps, padded past the 16-byte
/// Rabin-Karp cut-off (reaches Two-Way - with the portable prefilter in the
/// no-SIMD build - and the vector searchers with needles of 2..=6 bytes).
fn sf(args: &Args, thorough: bool, seed: u64, total: &mut Report, bounds: &mut Map<String, Value>) {
    let kinds = crate::parse_kinds_pub(&args.str("subjects", "finder,finder-nopre,memmem,rfinder"));
    let letters = args.str("letters", "abc").into_bytes();
    let nmax = args.num("nmax", if thorough { 6 } else { 5 }) as usize;
    let three = args.flag("three");
    let needles = AllStrings { letters: letters.clone(), minlen: 2, maxlen: nmax }.all();
    let rep = par::run_items(&needles, |_, needle, r| {
        let mut ctx = Ctx::new();
        ctx.set_needle(needle);
        let subjects = build_all(r, &kinds, needle, None, seed);
        let mut idx = 0u64;
        spaces::sf_haystacks(needle, &letters, b'#', three, |h| {
            idx += 1;
            check_hay(&mut ctx, r, &subjects, needle, h, Place::Plain, (idx % 8) as usize, None, idx);
        });
    });
    total.merge(rep);
    bounds.insert("SF".into(), json!({"needle_letters": String::from_utf8_lossy(&letters), "needle_len": [2, nmax], "pieces": "needle, every single-byte change (to each other letter and a foreign byte), every proper prefix and suffix", "shape": if three { "pad + P + gap + Q + gap + P + pad" } else { "pad + P + gap + Q + pad" }, "gaps": "all strings of <= 2 letters (incl. foreign) and 5 foreign bytes", "pads": "(0,16) (16,0) (1,17) (7,9) (0,0)"}));
}

/// NL: every needle of medium length over a tiny alphabet (long enough for
/// every critical-factorisation shape of the suffix computation to occur)
/// against a small set of haystacks derived from the needle itself: the
/// needle behind every short run of each letter, behind each of its own
/// proper suffixes, in front of each of its own proper prefixes, doubled, and
/// the same with the needle's last / first byte changed (no occurrence).
fn nl(args: &Args, thorough: bool, seed: u64, total: &mut Report, bounds: &mut Map<String, Value>) {
    let kinds = crate::parse_kinds_pub(&args.str("subjects", "twoway,rtwoway,finder-nopre,rfinder"));
    let letters = args.str("letters", "ab").into_bytes();
    let k = letters.len();
    let nmin = args.num("nmin", if k == 2 { 8 } else { 6 }) as usize;
    let nmax = args.num("nmax", if k == 2 { if thorough { 16 } else { 13 } } else if thorough { 10 } else { 8 }) as usize;
    let needles = AllStrings { letters: letters.clone(), minlen: nmin, maxlen: nmax };
    let nt = needles.total();
    let rep = par::run_chunks(nt, 256, |lo, hi, r| {
        let mut ctx = Ctx::new();
        let mut h: Vec<u8> = Vec::with_capacity(128);
        needles.for_range(lo, hi, |_, needle| {
            ctx.set_needle(needle);
            let subjects = build_all(r, &kinds, needle, None, seed);
            let m = needle.len();
            let mut idx = 0u64;
            let mut go = |h: &[u8], r: &mut Report, ctx: &mut Ctx| {
                idx += 1;
                check_hay(ctx, r, &subjects, needle, h, Place::Plain, (idx % 8) as usize, None, idx);
            };
            for variant in 0..3 {
                // 0: the needle; 1: last byte changed; 2: first byte changed
                let mut core = needle.to_vec();
                if variant == 1 {
                    core[m - 1] = b'#';
                } else if variant == 2 {
                    core[0] = b'#';
                }
                for &c in letters.iter().chain(std::iter::once(&b'#')) {
                    for pl in 0..=4usize {
                        for pr in [0usize, 1, 16] {
                            h.clear();
                            h.extend(std::iter::repeat(c).take(pl));
                            h.extend_from_slice(&core);
                            h.extend(std::iter::repeat(c).take(pr));
                            go(&h, r, &mut ctx);
                        }
                    }
                }
                for j in 1..m {
                    // a proper suffix of the needle, then the (changed) needle
                    h.clear();
                    h.extend_from_slice(&needle[j..]);
                    h.extend_from_slice(&core);
                    h.extend_from_slice(b"################");
                    go(&h, r, &mut ctx);
                    // the (changed) needle, then a proper prefix
                    h.clear();
                    h.extend_from_slice(b"################");
                    h.extend_from_slice(&core);
                    h.extend_from_slice(&needle[..j]);
                    go(&h, r, &mut ctx);
                }
                h.clear();
                h.extend_from_slice(&core);
                h.extend_from_slice(needle);
                h.extend_from_slice(&core);
                go(&h, r, &mut ctx);
            }
        });
    });
    total.merge(rep);
    bounds.insert("NL".into(), json!({"needle_letters": String::from_utf8_lossy(&letters), "needle_len": [nmin, nmax], "needles": nt, "haystacks_per_needle": "3 variants x ((|letters|+1) x 5 x 3 pads + 2(m-1) suffix/prefix contexts + 1 tripled)"}));
}

/// Long haystacks (around every power of two from 64 to 4096) with ONE
/// occurrence at each position near either end - or none - with and without
/// decoys of the needle's candidate pair: the sizes at which substring code
/// gated on a haystack / remainder length threshold is first entered.
fn long(args: &Args, thorough: bool, seed: u64, total: &mut Report, bounds: &mut Map<String, Value>) {
    let kinds = crate::parse_kinds_pub(&args.str("subjects", "memmem,finder,finder-nopre,rmemmem,rfinder"));
    let mut needles: Vec<Vec<u8>> = vec![b"ab".to_vec(), b"aab".to_vec(), b"abcab".to_vec(), b"zq".to_vec(), b"a".to_vec()];
    for l in [16usize, 32, 33, 130, 256] {
        let common: Vec<u8> = b"e ".iter().copied().cycle().take(l).collect();
        let mut a = common.clone();
        a[0] = b'z';
        a[l - 1] = b'q';
        needles.push(a);
        let mut b = common.clone();
        b[l - 2] = b'z';
        b[l - 1] = b'q';
        needles.push(b);
        needles.push(b"ab".iter().copied().cycle().take(l).collect());
    }
    let mut lens: Vec<usize> = vec![];
    for p in [64usize, 128, 256, 512, 1024, 2048, 4096] {
        lens.extend_from_slice(&[p - 1, p, p + 1]);
    }
    if thorough {
        lens.extend_from_slice(&[8191, 8192, 8193, 65535, 65536, 65537]);
    }
    let rep = par::run_items(&needles, |_, needle, r| {
        let mut ctx = Ctx::new();
        ctx.set_needle(needle);
        let subjects = build_all(r, &kinds, needle, None, seed);
        let m = needle.len();
        let pair = Pair::new(needle);
        let mut h: Vec<u8> = vec![];
        let mut order = 0u64;
        for &len in &lens {
            if len < m {
                continue;
            }
            let last = len - m;
            let mut positions: Vec<Option<usize>> = vec![None];
            positions.extend((0..=last.min(40)).map(Some));
            positions.extend((last.saturating_sub(40 + m)..=last).map(Some));
            positions.sort();
            positions.dedup();
            for decoys in 0..3 {
                for &pos in &positions {
                    h.clear();
                    h.resize(len, b'.');
                    if let (1, Some(p)) = (decoys, pair) {
                        // bare pair hits every 7 bytes
                        let (i1, i2) = (p.index1() as usize, p.index2() as usize);
                        let mut q = 0;
                        while q + i1.max(i2) < len {
                            h[q + i1] = needle[i1];
                            h[q + i2] = needle[i2];
                            q += 7;
                        }
                    } else if decoys == 2 {
                        // the needle's first byte everywhere else
                        for b in h.iter_mut() {
                            *b = needle[0];
                        }
                        if m == 1 {
                            continue;
                        }
                    }
                    if let Some(p) = pos {
                        // clear a window around the occurrence so that it is the only one
                        for b in h[p.saturating_sub(1)..(p + m + 1).min(len)].iter_mut() {
                            *b = b'.';
                        }
                        h[p..p + m].copy_from_slice(needle);
                    } else if decoys == 2 && needle.iter().all(|&b| b == needle[0]) {
                        continue;
                    }
                    order += 1;
                    check_hay(&mut ctx, r, &subjects, needle, &h, Place::Plain, (order % 16) as usize, None, order);
                }
            }
        }
    });
    total.merge(rep);
    bounds.insert("long".into(), json!({"needles": needles.len(), "haystack_lens": lens, "occurrence": "none, at each of the first 41 and last 41+m positions", "backgrounds": ["filler", "bare pair hits every 7 bytes", "the needle's first byte everywhere"]}));
}

/// Aliased operands: the needle is a sub-slice of the haystack's own buffer
/// (every pair of sub-slices of every buffer over {a,b} up to a length).
fn aliased(args: &Args, thorough: bool, seed: u64, total: &mut Report, bounds: &mut Map<String, Value>) {
    let kinds = crate::parse_kinds_pub(&args.str("subjects", "memmem,finder,iter-first,rmemmem,rfinder,twoway,rk,rtwoway,rrk"));
    let maxl = if thorough { 9 } else { 8 };
    let bufs = AllStrings { letters: b"ab".to_vec(), minlen: 0, maxlen: maxl }.all();
    let rep = par::run_chunks(bufs.len() as u64, 4, |lo, hi, r| {
        let mut ar = Arena::plain(1);
        for bi in lo..hi {
            let b = &bufs[bi as usize];
            let n = b.len();
            let placed: &[u8] = ar.place_fill(64 + (bi as usize % 8), b, b'a', b'a', 16);
            for k in 0..=n {
                for l in k..=n {
                    let needle = &placed[k..l];
                    let subjects = build_all(r, &kinds, needle, None, seed);
                    for i in 0..=n {
                        for j in i..=n {
                            let hay = &placed[i..j];
                            r.states += 1;
                            for s in &subjects {
                                r.evaluations += 1;
                                r.nontrivial += 1;
                                let got = guarded(|| s.built.run(hay));
                                let problem = match got {
                                    Err(msg) => Some(("panic", format!("panicked: {}", msg))),
                                    Ok(subj::Ran::Pos(p)) => crate::judge(s.kind.sem(), p, needle, hay, None),
                                    Ok(_) => None,
                                };
                                if let Some((class, what)) = problem {
                                    r.violation(Violation {
                                        class: class.into(),
                                        key: ((n as u64) << 16) | (l - k) as u64,
                                        what: format!("[{}] {} with needle = buffer[{}..{}] and haystack = buffer[{}..{}] of {}: {}", class, s.kind.name(), k, l, i, j, show(b), what),
                                        replay_argv: vec!["aliased".into()],
                                        detail: json!({"class": class, "subject": s.kind.name(), "buffer": hex(b), "needle": [k, l], "haystack": [i, j]}),
                                    });
                                }
                            }
                        }
                    }
                }
            }
        }
    });
    total.merge(rep);
    total.sample(0, || json!({"buffer": "\"abaab\"", "needle": "buffer[1..3]", "haystack": "buffer[0..4]", "note": "both operands are views of one allocation"}));
    bounds.insert("aliased".into(), json!({"buffers_over_ab_up_to": maxl, "operands": "every (needle sub-slice, haystack sub-slice) pair of the same buffer"}));
}

/// The full (needle length x haystack length) grid: EVERY pair of lengths up
/// to a bound - so that any code gated on a combination of the two lengths
/// (a ratio, a difference, two thresholds at once) is entered - with no
/// occurrence, one occurrence at every position, or a truncated occurrence at
/// the end.
fn grid(args: &Args, thorough: bool, seed: u64, total: &mut Report, bounds: &mut Map<String, Value>) {
    let kinds = crate::parse_kinds_pub(&args.str("subjects", "memmem,finder,finder-nopre,rmemmem,rfinder"));
    let nmax = args.num("nmax", if thorough { 140 } else { 72 }) as usize;
    let hmax = args.num("hmax", if thorough { 600 } else { 272 }) as usize;
    let nkinds = if thorough { 3 } else { 2 };
    let mut needles: Vec<Vec<u8>> = vec![];
    for m in 0..=nmax {
        for k in 0..nkinds {
            let n: Vec<u8> = match k {
                // all bytes distinct (up to 94), no period
                0 => (0..m).map(|i| 33 + (i % 94) as u8 + (i / 94) as u8).collect(),
                1 => b"ab".iter().copied().cycle().take(m).collect(),
                _ => b"aab".iter().copied().cycle().take(m).collect(),
            };
            if m == 0 && k > 0 {
                continue;
            }
            needles.push(n);
        }
    }
    let rep = par::run_items(&needles, |_, needle, r| {
        let mut ctx = Ctx::new();
        ctx.set_needle(needle);
        let subjects = build_all(r, &kinds, needle, None, seed);
        let m = needle.len();
        let mut h: Vec<u8> = vec![];
        let mut order = 0u64;
        for len in 0..=hmax {
            // no occurrence; all but the needle's last byte flush with the end
            for case in 0..2 {
                h.clear();
                h.resize(len, b'.');
                if case == 1 {
                    if m < 2 || len < m - 1 {
                        continue;
                    }
                    let p = len - (m - 1);
                    h[p..].copy_from_slice(&needle[..m - 1]);
                }
                order += 1;
                check_hay(&mut ctx, r, &subjects, needle, &h, Place::Plain, (order % 16) as usize, None, order);
            }
            // a NEAR MISS (one byte changed, at every position of the needle)
            // in front of 0 / 3 and behind 0 / 20 / 40 filler bytes, alone and
            // followed by a real occurrence - once per needle (len == 0 pass)
            if len == 0 && m >= 2 {
                for j in 0..m {
                    for pre in [0usize, 3] {
                        for post in [0usize, 20, 40] {
                            for with in [false, true] {
                                h.clear();
                                h.extend(std::iter::repeat(b'.').take(pre));
                                h.extend_from_slice(needle);
                                h[pre + j] ^= 0x04;
                                h.extend(std::iter::repeat(b'.').take(post));
                                if with {
                                    h.extend_from_slice(needle);
                                    h.extend_from_slice(b"..");
                                }
                                order += 1;
                                check_hay(&mut ctx, r, &subjects, needle, &h, Place::Plain, (order % 16) as usize, None, order);
                            }
                        }
                    }
                }
            }
            // ONE occurrence at every position
            if m == 0 || len < m {
                continue;
            }
            for p in 0..=len - m {
                h.clear();
                h.resize(len, b'.');
                h[p..p + m].copy_from_slice(needle);
                order += 1;
                check_hay(&mut ctx, r, &subjects, needle, &h, Place::Plain, (order % 16) as usize, None, order);
            }
        }
    });
    total.merge(rep);
    bounds.insert("grid".into(), json!({"needle_len": [0, nmax], "haystack_len": [0, hmax], "all_length_pairs": true, "needle_kinds": nkinds, "occurrence": ["none", "one at EVERY position", "truncated at the end"], "near_miss": "one byte changed at every needle position, pads 0/3 x 0/20/40, alone and followed by an occurrence"}));
}

/// Long needles at EVERY length 33..=300 (thorough 600): two rare bytes at
/// every pair of positions from a set that brackets the u8 index limits, the
/// vector widths and both ends; one-mismatch-run needles a^i b a^j with the
/// short side left and right; periodic and long-period needles; all searched
/// in haystacks with 0..=4 bytes in front and 0..=64 behind the occurrence,
/// without occurrence (first / last byte changed), behind a prefix of the
/// needle cut at many positions by a FOREIGN byte, and behind near misses.
/// Then construction plus three searches for every length up to 1100.
fn lgrid(args: &Args, thorough: bool, seed: u64, total: &mut Report, bounds: &mut Map<String, Value>) {
    let kinds = crate::parse_kinds_pub(&args.str("subjects", "memmem,finder,finder-nopre,rmemmem,rfinder"));
    let lmax = args.num("lmax", if thorough { 600 } else { 300 }) as usize;
    let cmax = args.num("cmax", if thorough { 2100 } else { 1100 }) as usize;
    let lens: Vec<usize> = (33..=cmax).collect();
    let rep = par::run_items(&lens, |_, &l, r| {
        let common: Vec<u8> = b"e ".iter().copied().cycle().take(l).collect();
        let mut needles: Vec<Vec<u8>> = vec![];
        if l <= lmax {
            let mut ps: Vec<usize> = if thorough {
                vec![0, 1, 2, l / 3, l / 2, 127, 128, 129, 240, 250, 253, 254, 255, 256, 257, l.saturating_sub(17), l.saturating_sub(16), l.saturating_sub(15), l - 3, l - 2, l - 1]
            } else {
                vec![0, 1, l / 2, 128, 250, 254, 255, 256, 257, l.saturating_sub(16), l - 2, l - 1]
            };
            ps.retain(|&p| p < l);
            ps.sort();
            ps.dedup();
            for &p1 in &ps {
                let mut v = common.clone();
                v[p1] = b'z';
                needles.push(v);
                for &p2 in &ps {
                    if p1 != p2 {
                        let mut v = common.clone();
                        v[p1] = b'z';
                        v[p2] = b'q';
                        needles.push(v);
                    }
                }
            }
            for i in [l / 4, l / 3, l / 2, 2 * l / 3, l.saturating_sub(33), 64, 70] {
                if i < l {
                    let mut v = vec![b'a'; l];
                    v[i] = b'b';
                    needles.push(v);
                }
            }
            needles.push(b"ab".iter().copied().cycle().take(l).collect());
            needles.push(b"aab".iter().copied().cycle().take(l).collect());
            for per in [l - 3, l * 3 / 4, l / 2 + 1] {
                let mut w = vec![b'e'; per];
                w[0] = b'a';
                w[per - 1] = b'z';
                w[per / 2] = b'q';
                needles.push(w.iter().copied().cycle().take(l).collect());
            }
            needles.push((0..l).map(|i| (i as u8).wrapping_mul(37).wrapping_add(11)).collect());
        } else {
            for p in [0usize, 256, l - 1] {
                let mut v = common.clone();
                v[p] = b'z';
                needles.push(v);
            }
            needles.push(b"ab".iter().copied().cycle().take(l).collect());
        }
        needles.sort();
        needles.dedup();
        let mut ctx = Ctx::new();
        let mut h: Vec<u8> = vec![];
        let mut order = 0u64;
        for needle in &needles {
            ctx.set_needle(needle);
            let subjects = build_all(r, &kinds, needle, None, seed);
            let mut run = |h: &[u8], ctx: &mut Ctx, r: &mut Report| {
                order += 1;
                check_hay(ctx, r, &subjects, needle, h, Place::Plain, (order % 16) as usize, None, order);
            };
            if l > lmax {
                run(&[], &mut ctx, r);
                run(needle, &mut ctx, r);
                h.clear();
                h.extend_from_slice(b"...");
                h.extend_from_slice(needle);
                h.extend(std::iter::repeat(b'.').take(20));
                run(&h, &mut ctx, r);
                continue;
            }
            for pre in 0..=4usize {
                for post in [0usize, 1, 2, 3, 4, 15, 16, 17, 31, 32, 33, 64] {
                    for variant in 0..3 {
                        if variant > 0 && (pre > 1 || post > 17) {
                            continue;
                        }
                        h.clear();
                        h.extend(std::iter::repeat(b'.').take(pre));
                        h.extend_from_slice(needle);
                        h.extend(std::iter::repeat(b'.').take(post));
                        match variant {
                            1 => h[pre + l - 1] = b'#',
                            2 => h[pre] = b'#',
                            _ => {}
                        }
                        run(&h, &mut ctx, r);
                    }
                }
            }
            // a prefix of the needle cut by a foreign byte, then the needle
            let step = (l / 48).max(1);
            let mut ks: Vec<usize> = (1..l).step_by(step).collect();
            ks.extend_from_slice(&[l / 3, l / 3 + 1, l / 2, l / 2 + 1, l - 1]);
            ks.sort();
            ks.dedup();
            for &k in &ks {
                for foreign in [b'Z', b'.'] {
                    h.clear();
                    h.extend_from_slice(&needle[..k]);
                    h.push(foreign);
                    h.extend_from_slice(needle);
                    h.extend_from_slice(b"...");
                    run(&h, &mut ctx, r);
                }
            }
            // near misses in front of the occurrence / alone
            for j in [0, l / 2, l - 1] {
                for gap in [0usize, 5] {
                    for with in [true, false] {
                        h.clear();
                        h.extend_from_slice(needle);
                        h[j] ^= 0x15;
                        h.extend(std::iter::repeat(b'.').take(gap));
                        if with {
                            h.extend_from_slice(needle);
                        } else {
                            h.extend_from_slice(&needle[..l - 1]);
                        }
                        run(&h, &mut ctx, r);
                    }
                }
            }
            h.clear();
            h.extend_from_slice(needle);
            h.extend_from_slice(needle);
            run(&h, &mut ctx, r);
        }
    });
    total.merge(rep);
    bounds.insert("lgrid".into(), json!({"needle_len": format!("every length 33..={}", lmax), "rare_byte_positions": if thorough { "every ordered pair from {0,1,2,l/3,l/2,127..129,240,250,253..257,l-17..l-15,l-3..l-1}" } else { "every ordered pair from {0,1,l/2,128,250,254..257,l-16,l-2,l-1}" }, "other_needles": ["a^i b a^j (i = l/4, l/3, l/2, 2l/3, l-33, 64, 70)", "(ab)*", "(aab)*", "W W[..r] for 3 periods", "37i+11"], "haystacks": ["pre 0..=4 x post {0..4,15..17,31..33,64}", "first / last byte of the occurrence changed", "needle[..k] + foreign byte + needle for k stepping l/48", "near miss (+gap) + needle / + needle minus last byte", "needle needle"], "construction_only": format!("every length {}..={} (3 searches each)", lmax + 1, cmax)}));
}
