//! Subjects: the public substring entry points of the crate, each built once
//! per needle and then run on many haystacks.

use memchr::arch::all::packedpair::{HeuristicFrequencyRank, Pair};
use memchr::arch::all::{packedpair as portable, rabinkarp, twoway};
use memchr::memmem::{self, Finder, FinderBuilder, FinderRev, Prefilter};

#[cfg(feature = "x86")]
use memchr::arch::x86_64::{avx2::packedpair as avx2pp, sse2::packedpair as sse2pp};
#[cfg(feature = "neon")]
use memchr::arch::aarch64::neon::packedpair as neonpp;
#[cfg(feature = "simd128")]
use memchr::arch::wasm32::simd128::packedpair as simdpp;
#[cfg(feature = "vn")]
use memchr::verif as mv;

/// What the reference model demands of a subject's answer.
#[derive(Clone, Copy, PartialEq, Eq, Debug)]
pub enum Sem {
    /// exactly the leftmost occurrence
    Fwd,
    /// exactly the rightmost occurrence
    Rev,
    /// a prefilter candidate: <= first occurrence; None only if no occurrence;
    /// the pair bytes are present at the candidate
    Cand,
    /// the whole greedy non-overlapping forward sequence
    FwdAll,
}

#[derive(Clone)]
pub struct TableRanker(pub [u8; 256]);

impl HeuristicFrequencyRank for TableRanker {
    fn rank(&self, byte: u8) -> u8 {
        self.0[byte as usize]
    }
}

/// Named rankers (C10). `needle` is used by the needle-dependent ones.
pub fn ranker(id: &str, needle: &[u8], seed: u64) -> TableRanker {
    let mut t = [0u8; 256];
    match id {
        "zero" => {}
        "max255" => t = [255; 256],
        "identity" => (0..256).for_each(|i| t[i] = i as u8),
        "reversed" => (0..256).for_each(|i| t[i] = 255 - i as u8),
        // the needle's own bytes are "the most common": drives the portable
        // prefilter's MAX_FALLBACK_RANK cut-off
        "needle-common" => {
            (0..256).for_each(|i| t[i] = (i / 2) as u8);
            for &b in needle {
                t[b as usize] = 255;
            }
        }
        // the needle's bytes are the rarest, everything else common
        "needle-rare" => {
            t = [200; 256];
            for &b in needle {
                t[b as usize] = 0;
            }
        }
        _ if id.starts_with("perm") => {
            // seed-derived permutation (xorshift Fisher-Yates)
            let salt: u64 = id[4..].bytes().fold(0u64, |a, d| a * 10 + (d - b'0') as u64);
            let mut x = 0x9e3779b97f4a7c15u64 ^ seed.wrapping_mul(0x2545f4914f6cdd1d) ^ (salt << 32 | salt);
            (0..256).for_each(|i| t[i] = i as u8);
            for i in (1..256).rev() {
                x ^= x << 13;
                x ^= x >> 7;
                x ^= x << 17;
                t.swap(i, (x % (i as u64 + 1)) as usize);
            }
        }
        // "wo:<r0><r1>..": weak order on the needle's distinct bytes in
        // ascending byte order; rank = 60 * digit; other bytes rank 128
        _ if id.starts_with("wo:") => {
            t = [128; 256];
            // the needle's distinct bytes in ascending order (no allocation:
            // this runs inside the allocation probe's bracket)
            let mut present = [false; 256];
            for &b in needle {
                present[b as usize] = true;
            }
            let mut digits = id[3..].bytes();
            for l in 0..256 {
                if present[l] {
                    match digits.next() {
                        Some(d) => t[l] = (d - b'0') * 60,
                        None => break,
                    }
                }
            }
        }
        _ => panic!("unknown ranker {}", id),
    }
    TableRanker(t)
}

/// `None` for the crate's default ranker.
pub fn ranker_or_default(id: &str, needle: &[u8], seed: u64) -> Option<TableRanker> {
    if id == "default" {
        None
    } else {
        Some(ranker(id, needle, seed))
    }
}

#[derive(Clone, Debug, PartialEq, Eq)]
pub enum Kind {
    Memmem,
    Finder,
    FinderNoPre,
    IterFirst,
    FinderOwned,
    /// first element of find_iter() on an owned finder (goes through as_ref)
    IterOwned,
    FinderAsRef,
    /// a fresh Finder that has already made `k` searches of a warm-up
    /// haystack (a near miss of the needle: `false`, the needle itself:
    /// `true`) when it searches the haystack under test
    FinderWarm(usize, bool, bool),
    TwoWay,
    Rk,
    ShiftOr,
    PpSse2,
    PpAvx2,
    PpNeon,
    PpSimd,
    PpVn(usize),
    Ranked(String, bool),
    /// complete find_iter traversal of a finder built with a ranker
    RankedAll(String, bool),
    RMemmem,
    RFinder,
    RIterFirst,
    RFinderOwned,
    /// first element of rfind_iter() on an owned reverse finder
    RIterOwned,
    RTwoWay,
    RRk,
    PfSse2,
    PfAvx2,
    PfNeon,
    PfSimd,
    PfPortable,
    PfVn(usize),
}

impl Kind {
    pub fn parse(s: &str) -> Kind {
        match s {
            "memmem" => Kind::Memmem,
            "finder" => Kind::Finder,
            "finder-nopre" => Kind::FinderNoPre,
            "iter-first" => Kind::IterFirst,
            "finder-owned" => Kind::FinderOwned,
            "iter-owned" => Kind::IterOwned,
            "riter-owned" => Kind::RIterOwned,
            "finder-asref" => Kind::FinderAsRef,
            "twoway" => Kind::TwoWay,
            "rk" => Kind::Rk,
            "shiftor" => Kind::ShiftOr,
            "pp-sse2" => Kind::PpSse2,
            "pp-avx2" => Kind::PpAvx2,
            "pp-neon" => Kind::PpNeon,
            "pp-simd128" => Kind::PpSimd,
            "rmemmem" => Kind::RMemmem,
            "rfinder" => Kind::RFinder,
            "riter-first" => Kind::RIterFirst,
            "rfinder-owned" => Kind::RFinderOwned,
            "rtwoway" => Kind::RTwoWay,
            "rrk" => Kind::RRk,
            "pf-sse2" => Kind::PfSse2,
            "pf-avx2" => Kind::PfAvx2,
            "pf-neon" => Kind::PfNeon,
            "pf-simd128" => Kind::PfSimd,
            "pf-portable" => Kind::PfPortable,
            _ => {
                if let Some(n) = s.strip_prefix("pp-vn") {
                    Kind::PpVn(n.parse().unwrap())
                } else if let Some(n) = s.strip_prefix("pf-vn") {
                    Kind::PfVn(n.parse().unwrap())
                } else if let Some(r) = s.strip_prefix("finder-warm:") {
                    // finder-warm:<k>:<miss|hit>[:thread] - with `thread` the warm-up
                    // searches are made by ANOTHER thread sharing the finder
                    let mut it = r.split(':');
                    let k = it.next().unwrap().parse().unwrap();
                    let hit = it.next().expect("finder-warm:<k>:<miss|hit>[:thread]") == "hit";
                    Kind::FinderWarm(k, hit, it.next() == Some("thread"))
                } else if let Some(r) = s.strip_prefix("rankedall:") {
                    let (rid, pre) = r.rsplit_once(':').expect("rankedall:<id>:<auto|none>");
                    Kind::RankedAll(rid.to_string(), pre == "auto")
                } else if let Some(r) = s.strip_prefix("ranked:") {
                    let (rid, pre) = r.rsplit_once(':').expect("ranked:<id>:<auto|none>");
                    Kind::Ranked(rid.to_string(), pre == "auto")
                } else {
                    panic!("unknown subject {}", s)
                }
            }
        }
    }

    pub fn name(&self) -> String {
        match self {
            Kind::Memmem => "memmem".into(),
            Kind::Finder => "finder".into(),
            Kind::FinderNoPre => "finder-nopre".into(),
            Kind::IterFirst => "iter-first".into(),
            Kind::FinderOwned => "finder-owned".into(),
            Kind::IterOwned => "iter-owned".into(),
            Kind::RIterOwned => "riter-owned".into(),
            Kind::FinderAsRef => "finder-asref".into(),
            Kind::FinderWarm(k, hit, th) => format!("finder-warm:{}:{}{}", k, if *hit { "hit" } else { "miss" }, if *th { ":thread" } else { "" }),
            Kind::TwoWay => "twoway".into(),
            Kind::Rk => "rk".into(),
            Kind::ShiftOr => "shiftor".into(),
            Kind::PpSse2 => "pp-sse2".into(),
            Kind::PpAvx2 => "pp-avx2".into(),
            Kind::PpNeon => "pp-neon".into(),
            Kind::PpSimd => "pp-simd128".into(),
            Kind::PpVn(n) => format!("pp-vn{}", n),
            Kind::Ranked(r, p) => format!("ranked:{}:{}", r, if *p { "auto" } else { "none" }),
            Kind::RankedAll(r, p) => format!("rankedall:{}:{}", r, if *p { "auto" } else { "none" }),
            Kind::RMemmem => "rmemmem".into(),
            Kind::RFinder => "rfinder".into(),
            Kind::RIterFirst => "riter-first".into(),
            Kind::RFinderOwned => "rfinder-owned".into(),
            Kind::RTwoWay => "rtwoway".into(),
            Kind::RRk => "rrk".into(),
            Kind::PfSse2 => "pf-sse2".into(),
            Kind::PfAvx2 => "pf-avx2".into(),
            Kind::PfNeon => "pf-neon".into(),
            Kind::PfSimd => "pf-simd128".into(),
            Kind::PfPortable => "pf-portable".into(),
            Kind::PfVn(n) => format!("pf-vn{}", n),
        }
    }

    pub fn sem(&self) -> Sem {
        match self {
            Kind::RMemmem | Kind::RFinder | Kind::RIterFirst | Kind::RFinderOwned | Kind::RIterOwned | Kind::RTwoWay | Kind::RRk => Sem::Rev,
            Kind::PfSse2 | Kind::PfAvx2 | Kind::PfNeon | Kind::PfSimd | Kind::PfPortable | Kind::PfVn(_) => Sem::Cand,
            Kind::RankedAll(..) => Sem::FwdAll,
            _ => Sem::Fwd,
        }
    }

    /// Whether CONSTRUCTING the subject must not touch the heap (C17). The
    /// owning conversions and Shift-Or may allocate.
    pub fn must_not_alloc(&self) -> bool {
        !matches!(
            self,
            Kind::FinderOwned | Kind::RFinderOwned | Kind::IterOwned | Kind::RIterOwned | Kind::ShiftOr | Kind::RankedAll(..) | Kind::FinderWarm(..)
        )
    }

    /// Whether SEARCHING with the built subject must not touch the heap:
    /// everything except the harness-side sequence collection - in
    /// particular searching (and iterating) with an OWNED finder.
    pub fn search_must_not_alloc(&self) -> bool {
        !matches!(self, Kind::RankedAll(..) | Kind::FinderWarm(_, _, true))
    }
}

#[cfg(feature = "vn")]
#[derive(Clone, Copy)]
pub enum VnPp {
    N2(mv::PackedPair<2>),
    N4(mv::PackedPair<4>),
    N8(mv::PackedPair<8>),
    N16(mv::PackedPair<16>),
}

#[cfg(feature = "vn")]
impl VnPp {
    pub fn with_pair(n: usize, needle: &[u8], pair: Pair) -> Option<VnPp> {
        Some(match n {
            2 => VnPp::N2(mv::PackedPair::with_pair(needle, pair)?),
            4 => VnPp::N4(mv::PackedPair::with_pair(needle, pair)?),
            8 => VnPp::N8(mv::PackedPair::with_pair(needle, pair)?),
            16 => VnPp::N16(mv::PackedPair::with_pair(needle, pair)?),
            _ => panic!("unsupported VN width"),
        })
    }
    pub fn min_haystack_len(&self) -> usize {
        match self {
            VnPp::N2(f) => f.min_haystack_len(),
            VnPp::N4(f) => f.min_haystack_len(),
            VnPp::N8(f) => f.min_haystack_len(),
            VnPp::N16(f) => f.min_haystack_len(),
        }
    }
    pub fn pair(&self) -> Pair {
        match self {
            VnPp::N2(f) => *f.pair(),
            VnPp::N4(f) => *f.pair(),
            VnPp::N8(f) => *f.pair(),
            VnPp::N16(f) => *f.pair(),
        }
    }
    pub fn find(&self, h: &[u8], n: &[u8]) -> Option<usize> {
        match self {
            VnPp::N2(f) => f.find(h, n),
            VnPp::N4(f) => f.find(h, n),
            VnPp::N8(f) => f.find(h, n),
            VnPp::N16(f) => f.find(h, n),
        }
    }
    pub fn find_prefilter(&self, h: &[u8]) -> Option<usize> {
        match self {
            VnPp::N2(f) => f.find_prefilter(h),
            VnPp::N4(f) => f.find_prefilter(h),
            VnPp::N8(f) => f.find_prefilter(h),
            VnPp::N16(f) => f.find_prefilter(h),
        }
    }
}

/// A second thread that performs warm-up searches on a finder SHARED with
/// the calling thread (by reference; the caller blocks until the searches
/// are done, so the borrow outlives its use).
pub struct Helper {
    tx: std::sync::mpsc::Sender<(usize, usize, usize, usize)>,
    rx: std::sync::mpsc::Receiver<()>,
}

impl Helper {
    pub fn new() -> Helper {
        let (tx, jobs) = std::sync::mpsc::channel::<(usize, usize, usize, usize)>();
        let (done, rx) = std::sync::mpsc::channel::<()>();
        std::thread::spawn(move || {
            while let Ok((fp, wp, wl, k)) = jobs.recv() {
                // SAFETY: the sender blocks in `warm` until we answer, so the
                // finder and the warm-up haystack are alive; Finder is Sync.
                let f: &Finder<'_> = unsafe { &*(fp as *const Finder<'_>) };
                let w: &[u8] = unsafe { std::slice::from_raw_parts(wp as *const u8, wl) };
                let r = std::panic::catch_unwind(std::panic::AssertUnwindSafe(|| {
                    for _ in 0..k {
                        let _ = f.find(w);
                    }
                }));
                let _ = r;
                if done.send(()).is_err() {
                    break;
                }
            }
        });
        Helper { tx, rx }
    }

    pub fn warm(&self, f: &Finder<'_>, w: &[u8], k: usize) {
        self.tx.send((f as *const Finder<'_> as usize, w.as_ptr() as usize, w.len(), k)).expect("helper thread gone");
        self.rx.recv().expect("helper thread gone");
    }
}

/// A subject built for one needle.
pub enum Built<'n> {
    Memmem(&'n [u8]),
    Finder(Finder<'n>),
    /// complete find_iter traversal
    FinderAll(Finder<'n>),
    /// searched through a fresh `as_ref()` on every call
    FinderAsRef(Finder<'n>),
    /// (needle, warm-up haystack, warm-up count): a fresh finder per call
    FinderWarm(&'n [u8], Vec<u8>, usize, Option<Helper>),
    IterFirst(&'n [u8]),
    FinderStatic(Finder<'static>),
    IterOwned(Finder<'static>),
    RIterOwned(FinderRev<'static>),
    TwoWay(twoway::Finder, &'n [u8]),
    Rk(rabinkarp::Finder, &'n [u8]),
    #[cfg(feature = "alloc")]
    ShiftOr(Option<memchr::arch::all::shiftor::Finder>),
    #[cfg(feature = "x86")]
    PpSse2(Option<sse2pp::Finder>, &'n [u8], bool),
    #[cfg(feature = "x86")]
    PpAvx2(Option<avx2pp::Finder>, &'n [u8], bool),
    #[cfg(feature = "neon")]
    PpNeon(Option<neonpp::Finder>, &'n [u8], bool),
    #[cfg(feature = "simd128")]
    PpSimd(Option<simdpp::Finder>, &'n [u8], bool),
    #[cfg(feature = "vn")]
    PpVn(Option<VnPp>, &'n [u8], bool),
    PfPortable(Option<portable::Finder>),
    RMemmem(&'n [u8]),
    RFinder(FinderRev<'n>),
    RIterFirst(&'n [u8]),
    RFinderStatic(FinderRev<'static>),
    RTwoWay(twoway::FinderRev, &'n [u8]),
    RRk(rabinkarp::FinderRev, &'n [u8]),
    /// not available in this build configuration
    Unavailable,
}

/// Result of running a subject on one haystack.
#[derive(Clone, Debug, PartialEq, Eq)]
pub enum Ran {
    /// outside the subject's documented domain (e.g. haystack shorter than
    /// min_haystack_len, needle too long for Shift-Or)
    NotApplicable,
    Pos(Option<usize>),
    /// a whole iteration; the flag says whether the iterator's prefilter
    /// state ended inert (read off the real object's Debug rendering)
    Seq(Vec<usize>, bool),
}

pub fn build<'n>(kind: &Kind, needle: &'n [u8], pair: Option<Pair>, seed: u64) -> Built<'n> {
    let _ = (&pair, seed);
    match kind {
        Kind::Memmem => Built::Memmem(needle),
        Kind::Finder => Built::Finder(Finder::new(needle)),
        Kind::FinderNoPre => Built::Finder(FinderBuilder::new().prefilter(Prefilter::None).build_forward(needle)),
        Kind::IterFirst => Built::IterFirst(needle),
        #[cfg(feature = "alloc")]
        Kind::FinderOwned => {
            // The owned finder is built from a heap copy of the needle that is
            // then overwritten and freed, so a retained borrow would show.
            let mut tmp = needle.to_vec();
            let owned = Finder::new(&tmp).into_owned();
            for b in tmp.iter_mut() {
                *b = !*b;
            }
            drop(tmp);
            Built::FinderStatic(owned)
        }
        #[cfg(feature = "alloc")]
        Kind::IterOwned => Built::IterOwned(Finder::new(needle).into_owned()),
        #[cfg(feature = "alloc")]
        Kind::RIterOwned => Built::RIterOwned(FinderRev::new(needle).into_owned()),
        Kind::FinderAsRef => Built::FinderAsRef(Finder::new(needle)),
        Kind::FinderWarm(k, hit, th) => {
            let mut w = vec![b'.'; 5];
            w.extend_from_slice(needle);
            if !*hit {
                if let Some(l) = w.last_mut() {
                    *l ^= 1;
                }
            }
            w.extend_from_slice(b"..");
            Built::FinderWarm(needle, w, *k, if *th { Some(Helper::new()) } else { None })
        }
        Kind::TwoWay => Built::TwoWay(twoway::Finder::new(needle), needle),
        Kind::Rk => Built::Rk(rabinkarp::Finder::new(needle), needle),
        #[cfg(feature = "alloc")]
        Kind::ShiftOr => Built::ShiftOr(memchr::arch::all::shiftor::Finder::new(needle)),
        #[cfg(feature = "x86")]
        Kind::PpSse2 | Kind::PfSse2 => {
            let f = match pair {
                Some(p) => sse2pp::Finder::with_pair(needle, p),
                None => sse2pp::Finder::new(needle),
            };
            Built::PpSse2(f, needle, kind.sem() == Sem::Cand)
        }
        #[cfg(feature = "x86")]
        Kind::PpAvx2 | Kind::PfAvx2 => {
            let f = match pair {
                Some(p) => avx2pp::Finder::with_pair(needle, p),
                None => avx2pp::Finder::new(needle),
            };
            Built::PpAvx2(f, needle, kind.sem() == Sem::Cand)
        }
        #[cfg(feature = "neon")]
        Kind::PpNeon | Kind::PfNeon => {
            let f = match pair {
                Some(p) => neonpp::Finder::with_pair(needle, p),
                None => neonpp::Finder::new(needle),
            };
            Built::PpNeon(f, needle, kind.sem() == Sem::Cand)
        }
        #[cfg(feature = "simd128")]
        Kind::PpSimd | Kind::PfSimd => {
            let f = match pair {
                Some(p) => simdpp::Finder::with_pair(needle, p),
                None => simdpp::Finder::new(needle),
            };
            Built::PpSimd(f, needle, kind.sem() == Sem::Cand)
        }
        #[cfg(feature = "vn")]
        Kind::PpVn(n) | Kind::PfVn(n) => {
            let p = pair.or_else(|| Pair::new(needle));
            let f = p.and_then(|p| VnPp::with_pair(*n, needle, p));
            Built::PpVn(f, needle, kind.sem() == Sem::Cand)
        }
        Kind::PfPortable => {
            let f = match pair {
                Some(p) => portable::Finder::with_pair(needle, p),
                None => portable::Finder::new(needle),
            };
            Built::PfPortable(f)
        }
        Kind::Ranked(rid, auto) => {
            let mut b = FinderBuilder::new();
            b.prefilter(if *auto { Prefilter::Auto } else { Prefilter::None });
            if rid == "default" {
                Built::Finder(b.build_forward(needle))
            } else {
                Built::Finder(b.build_forward_with_ranker(ranker(rid, needle, seed), needle))
            }
        }
        Kind::RankedAll(rid, auto) => {
            let mut b = FinderBuilder::new();
            b.prefilter(if *auto { Prefilter::Auto } else { Prefilter::None });
            if rid == "default" {
                Built::FinderAll(b.build_forward(needle))
            } else {
                Built::FinderAll(b.build_forward_with_ranker(ranker(rid, needle, seed), needle))
            }
        }
        Kind::RMemmem => Built::RMemmem(needle),
        Kind::RFinder => Built::RFinder(FinderRev::new(needle)),
        Kind::RIterFirst => Built::RIterFirst(needle),
        #[cfg(feature = "alloc")]
        Kind::RFinderOwned => {
            let mut tmp = needle.to_vec();
            let owned = FinderRev::new(&tmp).into_owned();
            for b in tmp.iter_mut() {
                *b = !*b;
            }
            drop(tmp);
            Built::RFinderStatic(owned)
        }
        Kind::RTwoWay => Built::RTwoWay(twoway::FinderRev::new(needle), needle),
        Kind::RRk => Built::RRk(rabinkarp::FinderRev::new(needle), needle),
        #[allow(unreachable_patterns)]
        _ => Built::Unavailable,
    }
}

macro_rules! pp_run {
    ($f:expr, $n:expr, $cand:expr, $h:expr) => {{
        match $f {
            None => Ran::NotApplicable,
            Some(f) => {
                if $h.len() < f.min_haystack_len() {
                    Ran::NotApplicable
                } else if *$cand {
                    Ran::Pos(f.find_prefilter($h))
                } else {
                    Ran::Pos(f.find($h, $n))
                }
            }
        }
    }};
}

impl<'n> Built<'n> {
    pub fn run(&self, h: &[u8]) -> Ran {
        match self {
            Built::Memmem(n) => Ran::Pos(memmem::find(h, n)),
            Built::Finder(f) => Ran::Pos(f.find(h)),
            Built::FinderAll(f) => {
                let mut it = f.find_iter(h);
                let mut v = vec![];
                while let Some(p) = it.next() {
                    v.push(p);
                    if v.len() > h.len() + 2 {
                        break;
                    }
                }
                let inert = format!("{:?}", it).contains("skips: 0,");
                Ran::Seq(v, inert)
            }
            Built::FinderAsRef(f) => {
                let r = f.as_ref();
                assert_eq!(r.needle(), f.needle(), "as_ref changed the needle");
                Ran::Pos(r.find(h))
            }
            Built::FinderWarm(n, w, k, th) => {
                let f = Finder::new(n);
                if let Some(helper) = th {
                    helper.warm(&f, w, *k);
                } else {
                    for _ in 0..*k {
                        let _ = f.find(w);
                    }
                }
                Ran::Pos(f.find(h))
            }
            Built::FinderStatic(f) => Ran::Pos(f.find(h)),
            Built::IterOwned(f) => Ran::Pos(f.find_iter(h).next()),
            Built::RIterOwned(f) => Ran::Pos(f.rfind_iter(h).next()),
            Built::IterFirst(n) => Ran::Pos(memmem::find_iter(h, *n).next()),
            Built::TwoWay(f, n) => Ran::Pos(f.find(h, n)),
            Built::Rk(f, n) => Ran::Pos(f.find(h, n)),
            #[cfg(feature = "alloc")]
            Built::ShiftOr(f) => match f {
                None => Ran::NotApplicable,
                Some(f) => Ran::Pos(f.find(h)),
            },
            #[cfg(feature = "x86")]
            Built::PpSse2(f, n, cand) => pp_run!(f, n, cand, h),
            #[cfg(feature = "x86")]
            Built::PpAvx2(f, n, cand) => pp_run!(f, n, cand, h),
            #[cfg(feature = "neon")]
            Built::PpNeon(f, n, cand) => pp_run!(f, n, cand, h),
            #[cfg(feature = "simd128")]
            Built::PpSimd(f, n, cand) => pp_run!(f, n, cand, h),
            #[cfg(feature = "vn")]
            Built::PpVn(f, n, cand) => match f {
                None => Ran::NotApplicable,
                Some(f) => {
                    if h.len() < f.min_haystack_len() {
                        Ran::NotApplicable
                    } else {
                        let s = h.as_ptr();
                        mv::set_region(s, unsafe { s.add(h.len()) });
                        if *cand {
                            Ran::Pos(f.find_prefilter(h))
                        } else {
                            Ran::Pos(f.find(h, n))
                        }
                    }
                }
            },
            Built::PfPortable(f) => match f {
                None => Ran::NotApplicable,
                Some(f) => Ran::Pos(f.find_prefilter(h)),
            },
            Built::RMemmem(n) => Ran::Pos(memmem::rfind(h, n)),
            Built::RFinder(f) => Ran::Pos(f.rfind(h)),
            Built::RFinderStatic(f) => Ran::Pos(f.rfind(h)),
            Built::RIterFirst(n) => Ran::Pos(memmem::rfind_iter(h, *n).next()),
            Built::RTwoWay(f, n) => Ran::Pos(f.rfind(h, n)),
            Built::RRk(f, n) => Ran::Pos(f.rfind(h, n)),
            Built::Unavailable => Ran::NotApplicable,
        }
    }

    /// Packed-pair subjects only: the finder's min_haystack_len.
    pub fn pp_min_len(&self) -> Option<usize> {
        match self {
            #[cfg(feature = "x86")]
            Built::PpSse2(Some(f), _, _) => Some(f.min_haystack_len()),
            #[cfg(feature = "x86")]
            Built::PpAvx2(Some(f), _, _) => Some(f.min_haystack_len()),
            #[cfg(feature = "neon")]
            Built::PpNeon(Some(f), _, _) => Some(f.min_haystack_len()),
            #[cfg(feature = "simd128")]
            Built::PpSimd(Some(f), _, _) => Some(f.min_haystack_len()),
            #[cfg(feature = "vn")]
            Built::PpVn(Some(f), _, _) => Some(f.min_haystack_len()),
            _ => None,
        }
    }

    /// Packed-pair subjects only: call find / find_prefilter *without* the
    /// harness-side length guard (the documented panic is the subject's job).
    pub fn pp_run_unguarded(&self, h: &[u8]) -> Option<usize> {
        macro_rules! go {
            ($f:expr, $n:expr, $cand:expr) => {
                if *$cand { $f.find_prefilter(h) } else { $f.find(h, $n) }
            };
        }
        match self {
            #[cfg(feature = "x86")]
            Built::PpSse2(Some(f), n, c) => go!(f, n, c),
            #[cfg(feature = "x86")]
            Built::PpAvx2(Some(f), n, c) => go!(f, n, c),
            #[cfg(feature = "neon")]
            Built::PpNeon(Some(f), n, c) => go!(f, n, c),
            #[cfg(feature = "simd128")]
            Built::PpSimd(Some(f), n, c) => go!(f, n, c),
            #[cfg(feature = "vn")]
            Built::PpVn(Some(f), n, c) => {
                let s = h.as_ptr();
                mv::set_region(s, unsafe { s.add(h.len()) });
                go!(f, n, c)
            }
            _ => panic!("not a packed-pair subject"),
        }
    }

    /// The candidate pair of a prefilter subject, if any.
    pub fn pair(&self) -> Option<Pair> {
        match self {
            #[cfg(feature = "x86")]
            Built::PpSse2(Some(f), _, _) => Some(*f.pair()),
            #[cfg(feature = "x86")]
            Built::PpAvx2(Some(f), _, _) => Some(*f.pair()),
            #[cfg(feature = "neon")]
            Built::PpNeon(Some(f), _, _) => Some(*f.pair()),
            #[cfg(feature = "simd128")]
            Built::PpSimd(Some(f), _, _) => Some(*f.pair()),
            #[cfg(feature = "vn")]
            Built::PpVn(Some(f), _, _) => Some(f.pair()),
            Built::PfPortable(Some(f)) => Some(*f.pair()),
            _ => None,
        }
    }

    pub fn is_vn(&self) -> bool {
        match self {
            #[cfg(feature = "vn")]
            Built::PpVn(..) => true,
            _ => false,
        }
    }

    /// Constructor-level expectations (C12: constructors report unsupported
    /// inputs by returning None rather than by answering wrongly).
    pub fn constructor_problem(&self, kind: &Kind, needle: &[u8]) -> Option<String> {
        let _ = kind;
        match self {
            #[cfg(feature = "alloc")]
            Built::ShiftOr(f) => {
                if f.is_some() != (needle.len() <= 15) {
                    return Some(format!(
                        "shiftor::Finder::new returned {} for a {}-byte needle (must be Some exactly for <= 15)",
                        if f.is_some() { "Some" } else { "None" },
                        needle.len()
                    ));
                }
                None
            }
            #[cfg(feature = "x86")]
            Built::PpSse2(f, _, _) => pp_ctor(f.is_some(), needle, "sse2"),
            #[cfg(feature = "x86")]
            Built::PpAvx2(f, _, _) => pp_ctor(f.is_some(), needle, "avx2"),
            #[cfg(feature = "vn")]
            Built::PpVn(f, _, _) => pp_ctor(f.is_some(), needle, "vn"),
            Built::PfPortable(f) => pp_ctor(f.is_some(), needle, "portable"),
            _ => None,
        }
    }
}

fn pp_ctor(some: bool, needle: &[u8], what: &str) -> Option<String> {
    if some != (needle.len() >= 2) {
        Some(format!(
            "{} packed-pair constructor returned {} for a {}-byte needle (must be Some exactly for >= 2 on this host)",
            what,
            if some { "Some" } else { "None" },
            needle.len()
        ))
    } else {
        None
    }
}
