//! Engine S for substring search (C03 C04 C10 C11 C12 C17; monitors for C05,
//! panics for C14): bounded-exhaustive exploration of the real memmem code and
//! its public building blocks against the naive reference model.

mod alloc;
mod extra;
mod spaces;
mod subj;

use mcore::{arena::Arena, guarded, hex, oracle, par, unhex, Args, Report, Violation};
use memchr::arch::all::packedpair::Pair;
use serde_json::{json, Value};
use spaces::AllStrings;
use subj::{Built, Kind, Ran, Sem};

#[global_allocator]
static GLOBAL: alloc::Counting = alloc::Counting;

pub const BASE: usize = 1024;
const FOREIGN: [u8; 96] = [0xAA; 96];

#[derive(Clone, Copy, PartialEq, Eq, Debug)]
pub enum Place {
    Plain,
    GuardEnd,
    GuardStart,
    /// heap block of exactly a + len bytes (valgrind memcheck)
    Heap,
}

impl Place {
    pub fn name(self) -> &'static str {
        match self {
            Place::Plain => "plain",
            Place::GuardEnd => "guard-end",
            Place::GuardStart => "guard-start",
            Place::Heap => "heap",
        }
    }
    pub fn parse(s: &str) -> Place {
        match s {
            "plain" => Place::Plain,
            "guard-end" => Place::GuardEnd,
            "guard-start" => Place::GuardStart,
            "heap" => Place::Heap,
            _ => panic!("place"),
        }
    }
}

pub struct Ctx {
    plain: Arena,
    guard: Arena,
    pre: Vec<u8>,
    post: Vec<u8>,
    heap: mcore::arena::HeapSlice,
}

impl Ctx {
    pub fn new() -> Ctx {
        Ctx { plain: Arena::plain(8), guard: Arena::guarded(2), pre: vec![], post: vec![], heap: mcore::arena::HeapSlice::empty() }
    }

    /// Neighbour bytes: copies of the needle on both sides, so that a read
    /// outside the slice that is *used* turns into a wrong answer.
    pub fn set_needle(&mut self, needle: &[u8]) {
        self.pre.clear();
        self.post.clear();
        if needle.is_empty() {
            self.pre.extend_from_slice(&[b'a'; 64]);
            self.post.extend_from_slice(&[b'a'; 64]);
            return;
        }
        while self.post.len() < 64 + needle.len() {
            self.post.extend_from_slice(needle);
        }
        self.pre = self.post.clone();
        // right-align a whole needle at the end of `pre`
        let cut = self.pre.len() % needle.len();
        self.pre.drain(..cut);
    }

    pub fn place(&mut self, place: Place, a: usize, data: &[u8]) -> &[u8] {
        // the arenas grow with the largest haystack placed so far
        let need = BASE + a + data.len() + 256;
        if need > self.plain.rw_len() {
            self.plain = Arena::plain(need / mcore::arena::PAGE + 2);
        }
        if data.len() + 256 > self.guard.rw_len() {
            self.guard = Arena::guarded((data.len() + 256) / mcore::arena::PAGE + 2);
        }
        match place {
            // even offsets: neighbours are copies of the needle (a read
            // outside the slice that is USED gives a wrong answer); odd
            // offsets: foreign bytes (a search that wrongly DEPENDS on bytes
            // outside the slice fails)
            Place::Plain if a % 2 == 0 => self.plain.place(BASE + a, data, &self.pre, &self.post),
            Place::Plain => self.plain.place(BASE + a, data, &FOREIGN, &FOREIGN),
            Place::GuardEnd => {
                let off = self.guard.flush_end(data.len());
                self.guard.place(off, data, &self.pre, &self.post)
            }
            Place::GuardStart => self.guard.place(0, data, &self.pre, &self.post),
            Place::Heap => self.heap.place(a % 8, data, b'a'),
        }
    }
}

/// Compares a subject's answer with the reference model.
pub fn judge(
    sem: Sem,
    got: Option<usize>,
    needle: &[u8],
    hay: &[u8],
    pair: Option<Pair>,
) -> Option<(&'static str, String)> {
    match sem {
        Sem::Fwd => {
            let exp = oracle::find_sub(hay, needle);
            if got != exp {
                return Some(("wrong_result", format!("returned {:?}, reference {:?}", got, exp)));
            }
        }
        Sem::Rev => {
            let exp = oracle::rfind_sub(hay, needle);
            if got != exp {
                return Some(("wrong_result", format!("returned {:?}, reference {:?}", got, exp)));
            }
        }
        Sem::FwdAll => unreachable!("sequence subjects are judged in check_hay"),
        Sem::Cand => {
            let first = oracle::find_sub(hay, needle);
            match (got, first) {
                (None, Some(p)) => {
                    return Some(("wrong_result", format!("prefilter returned None but the needle occurs at {}", p)))
                }
                (Some(c), Some(p)) if c > p => {
                    return Some((
                        "wrong_result",
                        format!("prefilter candidate {} is after the first occurrence {}", c, p),
                    ))
                }
                _ => {}
            }
            if let (Some(c), Some(pr)) = (got, pair) {
                let (i1, i2) = (pr.index1() as usize, pr.index2() as usize);
                let ok = c + i1 < hay.len()
                    && c + i2 < hay.len()
                    && hay[c + i1] == needle[i1]
                    && hay[c + i2] == needle[i2];
                if !ok {
                    return Some((
                        "wrong_result",
                        format!("prefilter candidate {} does not have the pair bytes at offsets ({},{})", c, i1, i2),
                    ));
                }
            }
        }
    }
    None
}

#[cfg(feature = "x86")]
fn strategy(kind: &Kind, needle: &[u8], hlen: usize) -> &'static str {
    use memchr::arch::x86_64::{avx2::packedpair as a, sse2::packedpair as s};
    let n = needle.len();
    if matches!(kind, Kind::Memmem) && hlen < 64 {
        return "strategy/one-shot rabinkarp (haystack<64)";
    }
    if n == 0 {
        return "strategy/empty";
    }
    if hlen < n {
        return "strategy/haystack shorter than needle";
    }
    if n == 1 {
        return "strategy/memchr";
    }
    if n <= 32 && s::Finder::is_available() {
        let smin = s::Finder::new(needle).map(|f| f.min_haystack_len()).unwrap_or(0);
        if hlen < smin {
            return "strategy/rabinkarp (below vector minimum)";
        }
        if a::Finder::is_available() {
            let p = *s::Finder::new(needle).unwrap().pair();
            let amin = n.max(p.index1().max(p.index2()) as usize + 32);
            return if hlen < amin { "strategy/packedpair sse2 inside avx2" } else { "strategy/packedpair avx2" };
        }
        return "strategy/packedpair sse2";
    }
    if hlen < 16 {
        return "strategy/rabinkarp (haystack<16)";
    }
    if matches!(kind, Kind::FinderNoPre) {
        "strategy/twoway"
    } else if s::Finder::is_available() {
        "strategy/twoway+vector prefilter"
    } else {
        "strategy/twoway+portable prefilter (unless its rank cut-off disables it)"
    }
}

#[cfg(not(feature = "x86"))]
fn strategy(kind: &Kind, needle: &[u8], hlen: usize) -> &'static str {
    let n = needle.len();
    if matches!(kind, Kind::Memmem) && hlen < 64 {
        return "strategy/one-shot rabinkarp (haystack<64)";
    }
    match n {
        0 => "strategy/empty",
        _ if hlen < n => "strategy/haystack shorter than needle",
        1 => "strategy/memchr",
        _ if hlen < 16 => "strategy/rabinkarp (haystack<16)",
        _ => "strategy/twoway(+prefilter) or vector per arch",
    }
}

pub struct Subject<'n> {
    pub kind: Kind,
    pub built: Built<'n>,
}

/// Builds every subject for `needle` (checking constructor expectations and
/// the no-allocation property of construction).
pub fn build_all<'n>(
    r: &mut Report,
    kinds: &[Kind],
    needle: &'n [u8],
    pair: Option<Pair>,
    seed: u64,
) -> Vec<Subject<'n>> {
    let mut out = vec![];
    for k in kinds {
        let a0 = alloc::allocs();
        let b = guarded(|| subj::build(k, needle, pair, seed));
        let a1 = alloc::allocs();
        r.evaluations += 1;
        match b {
            Err(msg) => {
                r.violation(Violation {
                    class: "panic".into(),
                    key: needle.len() as u64,
                    what: format!("[panic] constructing {} for needle {} panicked: {}", k.name(), hex(needle), msg),
                    replay_argv: replay_argv(k, needle, &[], 0, Place::Plain, pair),
                    detail: json!({"class": "panic", "subject": k.name(), "needle": hex(needle), "stage": "construct"}),
                });
            }
            Ok(b) => {
                if k.must_not_alloc() && a1 != a0 {
                    r.violation(Violation {
                        class: "alloc".into(),
                        key: needle.len() as u64,
                        what: format!("[alloc] constructing {} for needle {} made {} heap allocation(s)", k.name(), hex(needle), a1 - a0),
                        replay_argv: replay_argv(k, needle, &[], 0, Place::Plain, pair),
                        detail: json!({"class": "alloc", "subject": k.name(), "needle": hex(needle), "stage": "construct"}),
                    });
                }
                if !k.must_not_alloc() && matches!(k, Kind::FinderOwned | Kind::RFinderOwned) && a1 == a0 && !needle.is_empty() {
                    // positive control: the probe must see into_owned allocate
                    r.machinery_errors.push("allocation probe did not observe into_owned allocating".into());
                }
                if let Some(p) = b.constructor_problem(k, needle) {
                    r.violation(Violation {
                        class: "wrong_result".into(),
                        key: needle.len() as u64,
                        what: format!("[wrong_result] {}", p),
                        replay_argv: replay_argv(k, needle, &[], 0, Place::Plain, pair),
                        detail: json!({"class": "wrong_result", "subject": k.name(), "needle": hex(needle), "stage": "construct"}),
                    });
                }
                out.push(Subject { kind: k.clone(), built: b });
            }
        }
    }
    out
}

pub fn replay_argv(k: &Kind, needle: &[u8], hay: &[u8], a: usize, place: Place, pair: Option<Pair>) -> Vec<String> {
    let mut v: Vec<String> = vec![
        "replay".into(),
        "--subject".into(),
        k.name(),
        "--needle".into(),
        if needle.is_empty() { "-".into() } else { hex(needle) },
        "--hay".into(),
        if hay.is_empty() { "-".into() } else { hex(hay) },
        "--off".into(),
        a.to_string(),
        "--place".into(),
        place.name().into(),
    ];
    if let Some(p) = pair {
        v.push("--pair".into());
        v.push(format!("{},{}", p.index1(), p.index2()));
    }
    v
}

/// Runs every subject on one placed haystack.
#[allow(clippy::too_many_arguments)]
pub fn check_hay(
    ctx: &mut Ctx,
    r: &mut Report,
    subjects: &[Subject<'_>],
    needle: &[u8],
    data: &[u8],
    place: Place,
    a: usize,
    explicit_pair: Option<Pair>,
    order: u64,
) {
    let hay = ctx.place(place, a, data);
    r.states += 1;
    let occurs = oracle::find_sub(hay, needle);
    for s in subjects {
        // emulated NEON / simd128 builds: every vector load of the real ISA
        // modules is monitored against the haystack
        #[cfg(all(feature = "vn", any(feature = "neon", feature = "simd128")))]
        memchr::verif::set_region(hay.as_ptr(), unsafe { hay.as_ptr().add(hay.len()) });
        let a0 = alloc::allocs();
        let got = guarded(|| s.built.run(hay));
        let a1 = alloc::allocs();
        #[cfg(feature = "vn")]
        let stats = if s.built.is_vn() || cfg!(any(feature = "neon", feature = "simd128")) {
            Some(memchr::verif::take_stats())
        } else {
            None
        };
        let mut problem: Option<(&'static str, String)> = None;
        match got {
            Err(msg) => problem = Some(("panic", format!("panicked: {}", msg))),
            Ok(Ran::NotApplicable) => {
                r.bump("not-applicable");
                continue;
            }
            Ok(Ran::Seq(v, inert)) => {
                r.evaluations += 1;
                if inert {
                    r.bump("iterations that ended with the prefilter inert");
                }
                let exp = oracle::find_all(hay, needle);
                if v != exp {
                    problem = Some(("wrong_result", format!("find_iter yielded {:?}, reference {:?}", v, exp)));
                }
            }
            Ok(Ran::Pos(p)) => {
                r.evaluations += 1;
                problem = judge(s.kind.sem(), p, needle, hay, s.built.pair());
                if problem.is_none() && s.kind.search_must_not_alloc() && a1 != a0 {
                    problem = Some(("alloc", format!("made {} heap allocation(s)", a1 - a0)));
                }
                #[cfg(feature = "vn")]
                if let Some(st) = stats {
                    if st.oob > 0 || st.misaligned > 0 {
                        let (boff, bn) = st.first_bad.unwrap();
                        let w = format!(
                            "{} vector load(s) outside the haystack; first: {} bytes at haystack offset {} (haystack length {})",
                            st.oob, bn, boff, hay.len()
                        );
                        if problem.is_none() {
                            problem = Some(("oob_load", w));
                        } else {
                            r.bump("also/oob_load");
                        }
                    }
                }
            }
        }
        r.bump(&format!("calls/{}", s.kind.name()));
        if matches!(s.kind, Kind::Finder | Kind::Memmem | Kind::FinderNoPre) {
            r.bump(strategy(&s.kind, needle, hay.len()));
        }
        // non-trivial: the needle occurs beyond offset 0, or does not occur in
        // a haystack at least as long as the needle
        let nontrivial = match occurs {
            Some(p) => p > 0 && !needle.is_empty(),
            None => hay.len() >= needle.len(),
        };
        if nontrivial {
            r.nontrivial += 1;
        }
        if let Some((class, what)) = problem {
            r.violation(Violation {
                class: class.into(),
                key: ((needle.len() as u64) << 48) | ((hay.len() as u64) << 32) | (order & 0xffff_ffff),
                what: format!(
                    "[{}] {} needle={} haystack={} (len {}) off={} {}: {}",
                    class,
                    s.kind.name(),
                    show(needle),
                    show(data),
                    data.len(),
                    a,
                    place.name(),
                    what
                ),
                replay_argv: replay_argv(&s.kind, needle, data, a, place, explicit_pair),
                detail: json!({
                    "class": class, "subject": s.kind.name(), "needle": hex(needle), "haystack": hex(data),
                    "offset": a, "place": place.name(), "reference_first": occurs,
                    "pair": s.built.pair().map(|p| vec![p.index1(), p.index2()]),
                }),
            });
        } else if nontrivial {
            r.sample(((needle.len() as u64) << 48) | ((hay.len() as u64) << 32) | (order & 0xffff_ffff), || {
                json!({
                    "subject": s.kind.name(), "needle": show(needle), "haystack": show(data), "offset": a,
                    "place": place.name(), "reference_first": occurs,
                })
            });
        }
    }
}

pub fn show(b: &[u8]) -> String {
    if b.len() <= 48 && b.iter().all(|c| c.is_ascii_graphic() || *c == b' ') {
        format!("\"{}\"", String::from_utf8_lossy(b))
    } else if b.len() <= 48 {
        format!("0x{}", hex(b))
    } else {
        format!("0x{}..({} bytes)", hex(&b[..24]), b.len())
    }
}

pub fn parse_kinds_pub(s: &str) -> Vec<Kind> {
    parse_kinds(s)
}

fn parse_kinds(s: &str) -> Vec<Kind> {
    s.split(',').filter(|x| !x.is_empty()).map(Kind::parse).collect()
}

fn parse_letters(s: &str) -> Vec<u8> {
    match s {
        "ab" => b"ab".to_vec(),
        "abc" => b"abc".to_vec(),
        "c64" => vec![0x01, 0x41, 0x81],
        "rk" => vec![0, 1, 2],
        // value relations between needle bytes: complement, xor 1, +1, sign bit
        "compl" => vec![0x61, 0x9e],
        "x1" => vec![0x60, 0x61],
        "ff" => vec![0x00, 0xff],
        "sign" => vec![0x7f, 0x80],
        _ => unhex(s),
    }
}

/// E-spaces: all needles x all haystacks over a small alphabet.
fn run_e(
    total: &mut Report,
    kinds: &[Kind],
    letters: &[u8],
    nmin: usize,
    nmax: usize,
    hmin: usize,
    hmax: usize,
    aligns: &[usize],
    places: &[Place],
    seed: u64,
) {
    let needles = AllStrings { letters: letters.to_vec(), minlen: nmin, maxlen: nmax }.all();
    let hays = AllStrings { letters: letters.to_vec(), minlen: hmin, maxlen: hmax };
    let ht = hays.total();
    let chunk = 8192u64;
    let nchunks = (ht + chunk - 1) / chunk;
    let items = needles.len() as u64 * nchunks;
    let rep = par::run_chunks(items, 1, |lo, hi, r| {
        let mut ctx = Ctx::new();
        let guard_needle = places.iter().any(|p| *p != Place::Plain);
        for it in lo..hi {
            let needle_v = &needles[(it / nchunks) as usize];
            let c = it % nchunks;
            // in guard-page runs the NEEDLE too ends directly in front of a
            // PROT_NONE page (alternately: starts directly behind one)
            let mut narena = if guard_needle { Some(Arena::guarded(1)) } else { None };
            let needle: &[u8] = match narena.as_mut() {
                Some(na) => {
                    let off = if it % 2 == 0 { na.flush_end(needle_v.len()) } else { 0 };
                    na.place_fill(off, needle_v, 0, 0, 0)
                }
                None => needle_v,
            };
            ctx.set_needle(needle);
            let subjects = build_all(r, kinds, needle, None, seed);
            hays.for_range(c * chunk, ((c + 1) * chunk).min(ht), |idx, h| {
                for &place in places {
                    let al: &[usize] = if place == Place::Plain { aligns } else { &[0] };
                    for &a in al {
                        check_hay(&mut ctx, r, &subjects, needle, h, place, a, None, idx);
                    }
                }
            });
        }
    });
    total.merge(rep);
}

/// E2pad: small cores embedded with every left/right padding of the grid.
fn run_epad(total: &mut Report, kinds: &[Kind], letters: &[u8], nmax: usize, hmax: usize, pads: &[usize], seed: u64) {
    let needles = AllStrings { letters: letters.to_vec(), minlen: 1, maxlen: nmax }.all();
    let hays = AllStrings { letters: letters.to_vec(), minlen: 0, maxlen: hmax };
    let fills = [b'z', letters[0]];
    let ht = hays.total();
    let chunk = 512u64;
    let nchunks = (ht + chunk - 1) / chunk;
    let rep = par::run_chunks(needles.len() as u64 * nchunks, 1, |lo, hi, r| {
        let mut ctx = Ctx::new();
        let mut buf: Vec<u8> = vec![];
        for it in lo..hi {
            let needle = &needles[(it / nchunks) as usize];
            let c = it % nchunks;
            ctx.set_needle(needle);
            let subjects = build_all(r, kinds, needle, None, seed);
            hays.for_range(c * chunk, ((c + 1) * chunk).min(ht), |idx, core| {
                for &fill in &fills {
                    for &pl in pads {
                        for &pr in pads {
                            buf.clear();
                            buf.extend(std::iter::repeat(fill).take(pl));
                            buf.extend_from_slice(core);
                            buf.extend(std::iter::repeat(fill).take(pr));
                            check_hay(&mut ctx, r, &subjects, needle, &buf, Place::Plain, (pl + idx as usize) % 8, None, idx);
                        }
                    }
                }
            });
        }
    });
    total.merge(rep);
}

fn critical_pos(needle: &[u8]) -> Option<usize> {
    let d = format!("{:?}", memchr::arch::all::twoway::Finder::new(needle));
    let i = d.find("critical_pos: ")? + "critical_pos: ".len();
    let rest = &d[i..];
    let end = rest.find(|c: char| !c.is_ascii_digit())?;
    rest[..end].parse().ok()
}

/// LN: long structured needles against haystacks built from their factors.
fn run_ln(
    total: &mut Report,
    kinds: &[Kind],
    lengths: &[usize],
    max_u: usize,
    max_pieces: usize,
    max_pad: usize,
    places: &[Place],
    seed: u64,
) -> usize {
    let needles = spaces::ln_needles(lengths, max_u);
    let rep = par::run_items(&needles, |ni, needle, r| {
        let mut ctx = Ctx::new();
        ctx.set_needle(needle);
        let crit = critical_pos(needle);
        if let Some(c) = crit {
            r.bump(if 2 * c >= needle.len() { "needle/critical position in second half" } else { "needle/critical position in first half" });
        }
        let hays = spaces::factor_haystacks(needle, crit, max_pieces, max_pad, 4 * needle.len() + 64);
        let subjects = build_all(r, kinds, needle, None, seed);
        for (hi, h) in hays.iter().enumerate() {
            for &place in places {
                check_hay(&mut ctx, r, &subjects, needle, h, place, (ni + hi) % 16, None, hi as u64);
            }
        }
    });
    total.merge(rep);
    needles.len()
}

fn main() {
    mcore::run_main(real_main);
}

fn real_main() {
    let args = Args::parse();
    let mode = args.pos.first().map(|s| s.as_str()).unwrap_or("help").to_string();
    let out = args.str("out", "-");
    let t0 = std::time::Instant::now();
    let thorough = args.str("tier", "quick") == "thorough";
    let seed = std::env::var("VERIF_SEED").ok().and_then(|s| s.parse().ok()).unwrap_or(0u64);
    let mut total = Report::default();
    let mut bounds = serde_json::Map::new();
    let kinds = parse_kinds(&args.str("subjects", "memmem,finder,finder-nopre,iter-first"));
    let places: Vec<Place> = args.str("places", "plain").split(',').map(Place::parse).collect();

    match mode.as_str() {
        "replay" => {
            let k = Kind::parse(&args.str("subject", "finder"));
            let n = args.str("needle", "-");
            let needle = if n == "-" { vec![] } else { unhex(&n) };
            let h = args.str("hay", "-");
            let hay = if h == "-" { vec![] } else { unhex(&h) };
            let a = args.num("off", 0) as usize;
            let place = Place::parse(&args.str("place", "plain"));
            let pair = args.get("pair").map(|p| {
                let (x, y) = p.split_once(',').unwrap();
                Pair::with_indices(&needle, x.parse().unwrap(), y.parse().unwrap()).expect("valid pair")
            });
            let mut counts = vec![];
            let mut last = Report::default();
            for _ in 0..2 {
                let mut r = Report::default();
                let mut ctx = Ctx::new();
                ctx.set_needle(&needle);
                let subjects = build_all(&mut r, &[k.clone()], &needle, pair, seed);
                check_hay(&mut ctx, &mut r, &subjects, &needle, &hay, place, a, pair, 0);
                counts.push(r.violation_count);
                last = r;
            }
            assert_eq!(counts[0], counts[1], "replay is not deterministic");
            for v in &last.violations {
                println!("REPLAY-VIOLATION {}", v.what);
            }
            if last.violation_count == 0 {
                println!("REPLAY-OK no violation on this case");
            }
            std::process::exit(if last.violation_count > 0 { 1 } else { 0 });
        }
        "e" => {
            let letters = parse_letters(&args.str("letters", "ab"));
            let nmin = args.num("nmin", 0) as usize;
            let nmax = args.num("nmax", 5) as usize;
            let hmax = args.num("hmax", 12) as usize;
            let hmin = args.num("hmin", 0) as usize;
            let aligns: Vec<usize> = args.str("aligns", "0,5").split(',').map(|x| x.parse().unwrap()).collect();
            run_e(&mut total, &kinds, &letters, nmin, nmax, hmin, hmax, &aligns, &places, seed);
            bounds.insert("E".into(), json!({"letters": hex(&letters), "needle_len": [nmin, nmax], "haystack_len": [hmin, hmax], "offsets": aligns, "places": places.iter().map(|p| p.name()).collect::<Vec<_>>()}));
        }
        "epad" => {
            let nmax = args.num("nmax", 3) as usize;
            let hmax = args.num("hmax", 8) as usize;
            let pads: Vec<usize> = if thorough { spaces::PADS.to_vec() } else { vec![0, 1, 3, 8, 15, 16, 17, 31, 33] };
            let letters = parse_letters(&args.str("letters", "ab"));
            run_epad(&mut total, &kinds, &letters, nmax, hmax, &pads, seed);
            bounds.insert("E2pad".into(), json!({"letters": hex(&letters), "needle_len": [1, nmax], "core_len": [0, hmax], "pads": pads, "pad_bytes": "z (foreign), the first needle letter"}));
        }
        "ln" => {
            let lengths: Vec<usize> = args
                .str("lengths", if thorough { "33,34,40,47,48,64,65,100,130,255,256,300" } else { "33,40,65,130,256" })
                .split(',')
                .map(|x| x.parse().unwrap())
                .collect();
            let max_u = args.num("maxu", if thorough { 4 } else { 3 }) as usize;
            let pieces = args.num("pieces", if thorough { 3 } else { 2 }) as usize;
            let pad = args.num("pad", if thorough { 40 } else { 20 }) as usize;
            let n = run_ln(&mut total, &kinds, &lengths, max_u, pieces, pad, &places, seed);
            bounds.insert("LN".into(), json!({"needle_lengths": lengths, "needles": n, "max_|u|": max_u, "max_pieces": pieces, "max_pad": pad}));
        }
        _ => {
            if !extra::dispatch(&mode, &args, thorough, seed, &mut total, &mut bounds) {
                eprintln!("usage: ss <e|epad|ln|pp-pairs|pp-panic|pairs|equal|wrong-needle|pf|replay> ...");
                std::process::exit(2);
            }
        }
    }
    let extra = json!({
        "engine": "ss", "mode": mode, "tier": if thorough { "thorough" } else { "quick" },
        "subjects": kinds.iter().map(|k| k.name()).collect::<Vec<_>>(),
        "bounds": Value::Object(bounds),
        "nontrivial_rule": "the needle's first occurrence is at an offset > 0, or it does not occur in a haystack at least as long as the needle",
        "exhaustive": true,
        "wall_s": t0.elapsed().as_secs_f64(),
    });
    total.write(&out, &format!("ss/{}", mode), extra);
    eprintln!(
        "ss/{}: {} shapes, {} calls, {} non-trivial, {} violations, {:.1}s",
        mode,
        total.states,
        total.evaluations,
        total.nontrivial,
        total.violation_count,
        t0.elapsed().as_secs_f64()
    );
}
