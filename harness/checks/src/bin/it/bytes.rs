//! Model over the byte-search iterators (C06, and the history half of C07).

use std::fmt::Debug;
use std::hash::{Hash, Hasher};
use std::sync::atomic::{AtomicU64, Ordering};
use std::sync::{Arc, Mutex};

use mcore::{enumr, guarded, hex, unhex, Args, Report, Violation};
use memchr::arch::all::memchr as swar;
#[cfg(feature = "neon")]
use memchr::arch::aarch64::neon::memchr as neon;
#[cfg(feature = "simd128")]
use memchr::arch::wasm32::simd128::memchr as simd128;
#[cfg(feature = "x86")]
use memchr::arch::x86_64::avx2::memchr as avx2;
#[cfg(feature = "x86")]
use memchr::arch::x86_64::sse2::memchr as sse2;
use serde_json::{json, Map, Value};
use stateright::{Checker, Model, Property};

pub trait BIter: Send + Sync {
    fn next(&mut self) -> Option<usize>;
    fn next_back(&mut self) -> Option<usize>;
    fn size_hint(&self) -> (usize, Option<usize>);
    fn count_clone(&self) -> usize;
    /// Results of the std iterator adaptors (default methods unless the type
    /// overrides them) on clones: last, nth(0), nth(1) then next / next_back,
    /// nth_back(0), nth_back(1) then next_back, fold (count, sum), rfold
    /// (first element seen), rev().next()
    fn adaptors(&self) -> [Option<usize>; 16];
    fn dbg(&self) -> String;
    fn boxed_clone(&self) -> Box<dyn BIter>;
}

struct W<T>(T);

impl<T> BIter for W<T>
where
    T: Iterator<Item = usize> + DoubleEndedIterator + Clone + Debug + Send + Sync + 'static,
{
    fn next(&mut self) -> Option<usize> {
        self.0.next()
    }
    fn next_back(&mut self) -> Option<usize> {
        self.0.next_back()
    }
    fn size_hint(&self) -> (usize, Option<usize>) {
        self.0.size_hint()
    }
    fn count_clone(&self) -> usize {
        self.0.clone().count()
    }
    fn adaptors(&self) -> [Option<usize>; 16] {
        let last = self.0.clone().last();
        let nth0 = self.0.clone().nth(0);
        let mut a = self.0.clone();
        let nth1 = a.nth(1);
        let after_nth1 = a.next();
        let mut a2 = self.0.clone();
        let _ = a2.nth(1);
        let back_after_nth1 = a2.next_back();
        let nb0 = self.0.clone().nth_back(0);
        let mut b = self.0.clone();
        let nb1 = b.nth_back(1);
        let after_nb1 = b.next_back();
        let (cnt, sum) = self.0.clone().fold((0usize, 0usize), |(c, s), p| (c + 1, s.wrapping_add(p)));
        let rfirst = self.0.clone().rfold(None, |acc: Option<usize>, p| acc.or(Some(p)));
        let revn = self.0.clone().rev().next();
        // larger skips (an `nth` override would only engage from some n on)
        let mut c = self.0.clone();
        let nth16 = c.nth(16);
        let after_nth16 = c.next();
        let nth33 = self.0.clone().nth(33);
        let nb16 = self.0.clone().nth_back(16);
        let step: usize = self.0.clone().step_by(17).fold(0usize, |s, p| s.wrapping_mul(31).wrapping_add(p + 1));
        [last, nth0, nth1, after_nth1, back_after_nth1, nb0, nb1, after_nb1, Some(cnt.wrapping_mul(1_000_003).wrapping_add(sum)), rfirst, revn, nth16, after_nth16, nth33, nb16, Some(step)]
    }
    fn dbg(&self) -> String {
        format!("{:?}", self.0)
    }
    fn boxed_clone(&self) -> Box<dyn BIter> {
        Box::new(W(self.0.clone()))
    }
}

pub const KINDS: [&str; 18] = [
    "top1", "top2", "top3", "swar1", "swar2", "swar3", "sse2-1", "sse2-2", "sse2-3", "avx2-1", "avx2-2", "avx2-3",
    "neon-1", "neon-2", "neon-3", "simd128-1", "simd128-2", "simd128-3",
];

/// The kinds available in this build configuration.
pub fn default_kinds() -> Vec<&'static str> {
    let mut v = vec!["top1", "top2", "top3", "swar1", "swar2", "swar3"];
    #[cfg(feature = "x86")]
    {
        if sse2::One::is_available() {
            v.extend(["sse2-1", "sse2-2", "sse2-3"]);
        }
        if avx2::One::is_available() {
            v.extend(["avx2-1", "avx2-2", "avx2-3"]);
        }
    }
    #[cfg(feature = "neon")]
    v.extend(["neon-1", "neon-2", "neon-3"]);
    #[cfg(feature = "simd128")]
    v.extend(["simd128-1", "simd128-2", "simd128-3"]);
    v
}

fn kind_k(kind: &str) -> usize {
    (kind.as_bytes()[kind.len() - 1] - b'0') as usize
}


fn leak<T>(t: T) -> &'static T {
    Box::leak(Box::new(t))
}

/// Builds the real iterator.
fn make(kind: &str, nd: [u8; 3], hay: &'static [u8]) -> Box<dyn BIter> {
    match kind {
        "top1" => Box::new(W(memchr::memchr_iter(nd[0], hay))),
        "top2" => Box::new(W(memchr::memchr2_iter(nd[0], nd[1], hay))),
        "top3" => Box::new(W(memchr::memchr3_iter(nd[0], nd[1], nd[2], hay))),
        "swar1" => Box::new(W(leak(swar::One::new(nd[0])).iter(hay))),
        "swar2" => Box::new(W(leak(swar::Two::new(nd[0], nd[1])).iter(hay))),
        "swar3" => Box::new(W(leak(swar::Three::new(nd[0], nd[1], nd[2])).iter(hay))),
        #[cfg(feature = "x86")]
        "sse2-1" => Box::new(W(leak(sse2::One::new(nd[0]).unwrap()).iter(hay))),
        #[cfg(feature = "x86")]
        "sse2-2" => Box::new(W(leak(sse2::Two::new(nd[0], nd[1]).unwrap()).iter(hay))),
        #[cfg(feature = "x86")]
        "sse2-3" => Box::new(W(leak(sse2::Three::new(nd[0], nd[1], nd[2]).unwrap()).iter(hay))),
        #[cfg(feature = "x86")]
        "avx2-1" => Box::new(W(leak(avx2::One::new(nd[0]).unwrap()).iter(hay))),
        #[cfg(feature = "x86")]
        "avx2-2" => Box::new(W(leak(avx2::Two::new(nd[0], nd[1]).unwrap()).iter(hay))),
        #[cfg(feature = "x86")]
        "avx2-3" => Box::new(W(leak(avx2::Three::new(nd[0], nd[1], nd[2]).unwrap()).iter(hay))),
        #[cfg(feature = "neon")]
        "neon-1" => Box::new(W(leak(neon::One::new(nd[0]).unwrap()).iter(hay))),
        #[cfg(feature = "neon")]
        "neon-2" => Box::new(W(leak(neon::Two::new(nd[0], nd[1]).unwrap()).iter(hay))),
        #[cfg(feature = "neon")]
        "neon-3" => Box::new(W(leak(neon::Three::new(nd[0], nd[1], nd[2]).unwrap()).iter(hay))),
        #[cfg(feature = "simd128")]
        "simd128-1" => Box::new(W(leak(simd128::One::new(nd[0]).unwrap()).iter(hay))),
        #[cfg(feature = "simd128")]
        "simd128-2" => Box::new(W(leak(simd128::Two::new(nd[0], nd[1]).unwrap()).iter(hay))),
        #[cfg(feature = "simd128")]
        "simd128-3" => Box::new(W(leak(simd128::Three::new(nd[0], nd[1], nd[2]).unwrap()).iter(hay))),
        _ => panic!("iterator kind {} is not available in this build configuration", kind),
    }
}

pub struct Case {
    kind: &'static str,
    nd: [u8; 3],
    hay: &'static [u8],
    align: usize,
    /// reference model: sorted match positions
    positions: Vec<u32>,
}

#[derive(Clone, Copy, Debug, PartialEq, Eq, Hash)]
pub enum Act {
    Next,
    NextBack,
}

pub struct St {
    case: u32,
    it: Box<dyn BIter>,
    /// reference model: how many were taken from the front / back
    f: u32,
    b: u32,
    bad: Option<Arc<String>>,
    /// the history that produced this state (not part of its identity)
    hist: Vec<Act>,
}

impl Clone for St {
    fn clone(&self) -> St {
        St { case: self.case, it: self.it.boxed_clone(), f: self.f, b: self.b, bad: self.bad.clone(), hist: self.hist.clone() }
    }
}

impl Hash for St {
    fn hash<H: Hasher>(&self, h: &mut H) {
        self.case.hash(h);
        self.it.dbg().hash(h);
        self.f.hash(h);
        self.b.hash(h);
        self.bad.is_some().hash(h);
    }
}

impl PartialEq for St {
    fn eq(&self, o: &St) -> bool {
        self.case == o.case && self.f == o.f && self.b == o.b && self.bad.is_some() == o.bad.is_some() && self.it.dbg() == o.it.dbg()
    }
}

impl Debug for St {
    fn fmt(&self, f: &mut std::fmt::Formatter) -> std::fmt::Result {
        write!(f, "case {} f={} b={} {}", self.case, self.f, self.b, self.it.dbg())
    }
}

pub struct BytesModel {
    cases: Vec<Case>,
    nontrivial: AtomicU64,
    exhausted_states: AtomicU64,
    violations: Mutex<Vec<Violation>>,
    violation_count: AtomicU64,
}

impl BytesModel {
    /// Checks that hold in every state: size_hint brackets the remaining
    /// count, count() of a clone equals it, and an exhausted iterator keeps
    /// returning None from both ends.
    fn state_checks(&self, st: &St) -> Option<String> {
        let c = &self.cases[st.case as usize];
        let remaining = c.positions.len() as u32 - st.f - st.b;
        let (lo, hi) = st.it.size_hint();
        if lo as u64 > remaining as u64 {
            return Some(format!("size_hint lower bound {} exceeds the {} matches still to come", lo, remaining));
        }
        if let Some(hi) = hi {
            if (hi as u64) < remaining as u64 {
                return Some(format!("size_hint upper bound {} is below the {} matches still to come", hi, remaining));
            }
        }
        let cnt = st.it.count_clone();
        if cnt as u64 != remaining as u64 {
            return Some(format!("count() on a clone returned {} but {} matches are still to come", cnt, remaining));
        }
        {
            let rem: &[u32] = &c.positions[st.f as usize..c.positions.len() - st.b as usize];
            let g = |i: usize| rem.get(i).map(|&p| p as usize);
            let gb = |i: usize| if i < rem.len() { Some(rem[rem.len() - 1 - i] as usize) } else { None };
            let sum = rem.iter().fold(0usize, |s, &p| s.wrapping_add(p as usize));
            // after nth(1) consumed two from the front, the back is rem[len-1] if len >= 3
            let back_after_nth1 = if rem.len() >= 3 { gb(0) } else { None };
            // after nth_back(1) consumed two from the back
            let after_nb1 = if rem.len() >= 3 { gb(2) } else { None };
            let step = rem.iter().step_by(17).fold(0usize, |s, &p| s.wrapping_mul(31).wrapping_add(p as usize + 1));
            let exp = [gb(0), g(0), g(1), g(2), back_after_nth1, gb(0), gb(1), after_nb1, Some(rem.len().wrapping_mul(1_000_003).wrapping_add(sum)), gb(0), gb(0), g(16), g(17), g(33), gb(16), Some(step)];
            let got = st.it.adaptors();
            if got != exp {
                let names = ["last()", "nth(0)", "nth(1)", "next() after nth(1)", "next_back() after nth(1)", "nth_back(0)", "nth_back(1)", "next_back() after nth_back(1)", "fold (count, sum)", "rfold (first seen)", "rev().next()", "nth(16)", "next() after nth(16)", "nth(33)", "nth_back(16)", "step_by(17)"];
                let i = (0..16).find(|&i| got[i] != exp[i]).unwrap();
                return Some(format!("{} on a clone returned {:?}, reference {:?}", names[i], got[i], exp[i]));
            }
        }
        if remaining == 0 {
            let mut it = st.it.boxed_clone();
            for i in 0..3 {
                if let Some(p) = it.next() {
                    return Some(format!("exhausted iterator yielded {} from next() (extra call {})", p, i));
                }
                if let Some(p) = it.next_back() {
                    return Some(format!("exhausted iterator yielded {} from next_back() (extra call {})", p, i));
                }
            }
        }
        None
    }

    fn record(&self, st: &St, what: &str) {
        let c = &self.cases[st.case as usize];
        self.violation_count.fetch_add(1, Ordering::Relaxed);
        let acts: String = st.hist.iter().map(|a| if *a == Act::Next { 'N' } else { 'B' }).collect();
        let mut v = self.violations.lock().unwrap();
        if v.len() < 64 {
            let class = if what.starts_with("ALLOC ") { "alloc" } else { "wrong_result" };
            v.push(Violation {
                class: class.into(),
                key: ((st.hist.len() as u64) << 32) | c.hay.len() as u64,
                what: format!(
                    "[{}] {} needles={} haystack={} (len {}, align {}) after history [{}]: {}",
                    class,
                    c.kind,
                    hex(&c.nd[..kind_k(c.kind)]),
                    hex(c.hay),
                    c.hay.len(),
                    c.align,
                    acts,
                    what
                ),
                replay_argv: vec![
                    "bytes-replay".into(),
                    "--kind".into(),
                    c.kind.into(),
                    "--needles".into(),
                    hex(&c.nd),
                    "--hay".into(),
                    if c.hay.is_empty() { "-".into() } else { hex(c.hay) },
                    "--align".into(),
                    c.align.to_string(),
                    "--actions".into(),
                    if acts.is_empty() { "-".into() } else { acts.clone() },
                ],
                detail: json!({"class": "wrong_result", "kind": c.kind, "needles": hex(&c.nd[..kind_k(c.kind)]), "haystack": hex(c.hay), "align": c.align, "history": acts}),
            });
        }
    }

    fn init_state(&self, i: usize) -> St {
        let c = &self.cases[i];
        let mut st = St { case: i as u32, it: make(c.kind, c.nd, c.hay), f: 0, b: 0, bad: None, hist: vec![] };
        if let Some(w) = self.state_checks(&st) {
            self.record(&st, &w);
            st.bad = Some(Arc::new(w));
        }
        st
    }

    fn step(&self, last: &St, act: Act) -> St {
        let c = &self.cases[last.case as usize];
        let n = c.positions.len() as u32;
        let remaining = n - last.f - last.b;
        let mut st = last.clone();
        st.hist.push(act);
        let before = last.it.dbg();
        let a0 = crate::alloc::allocs();
        let (got, exp) = match act {
            Act::Next => (st.it.next(), if remaining > 0 { Some(c.positions[last.f as usize] as usize) } else { None }),
            Act::NextBack => {
                (st.it.next_back(), if remaining > 0 { Some(c.positions[(n - 1 - last.b) as usize] as usize) } else { None })
            }
        };
        let made = crate::alloc::allocs() - a0;
        let mut bad = None;
        if made > 0 {
            bad = Some(format!("ALLOC {:?} made {} heap allocation(s)", act, made));
        } else if got != exp {
            bad = Some(format!("{:?} returned {:?}, reference model {:?}", act, got, exp));
        } else if got.is_some() {
            match act {
                Act::Next => st.f += 1,
                Act::NextBack => st.b += 1,
            }
            if st.it.dbg() == before {
                bad = Some(format!("{:?} yielded {:?} but left the iterator unchanged (would never terminate)", act, got));
            }
        }
        if bad.is_none() {
            bad = self.state_checks(&st);
        }
        if let Some(w) = bad {
            self.record(&st, &w);
            st.bad = Some(Arc::new(w));
        }
        st
    }
}

impl Model for BytesModel {
    type State = St;
    type Action = Act;

    fn init_states(&self) -> Vec<St> {
        (0..self.cases.len())
            .map(|i| match guarded(|| self.init_state(i)) {
                Ok(st) => st,
                Err(msg) => {
                    // a panic while creating / inspecting the fresh iterator
                    let c = &self.cases[i];
                    let mut st = St { case: i as u32, it: make(c.kind, c.nd, c.hay), f: 0, b: 0, bad: None, hist: vec![] };
                    let w = format!("inspecting the fresh iterator panicked: {}", msg);
                    self.record(&st, &w);
                    st.bad = Some(Arc::new(w));
                    st
                }
            })
            .collect()
    }

    fn actions(&self, st: &St, actions: &mut Vec<Act>) {
        if st.bad.is_none() {
            actions.push(Act::Next);
            actions.push(Act::NextBack);
        }
    }

    fn next_state(&self, last: &St, act: Act) -> Option<St> {
        match guarded(|| self.step(last, act)) {
            Ok(st) => Some(st),
            Err(msg) => {
                let mut st = last.clone();
                st.hist.push(act);
                let w = format!("{:?} panicked: {}", act, msg);
                self.record(&st, &w);
                st.bad = Some(Arc::new(w));
                Some(st)
            }
        }
    }

    fn properties(&self) -> Vec<Property<Self>> {
        vec![Property::always("conforms to the reference deque", |m: &BytesModel, st: &St| {
            let c = &m.cases[st.case as usize];
            let remaining = c.positions.len() as u32 - st.f - st.b;
            let taken = st.f + st.b;
            if (taken >= 1 && remaining > 0) || (remaining == 0 && taken >= 2) {
                m.nontrivial.fetch_add(1, Ordering::Relaxed);
            }
            if remaining == 0 {
                m.exhausted_states.fetch_add(1, Ordering::Relaxed);
            }
            st.bad.is_none()
        })]
    }
}

fn positions(k: usize, nd: [u8; 3], hay: &[u8]) -> Vec<u32> {
    (0..hay.len()).filter(|&i| nd[..k].contains(&hay[i])).map(|i| i as u32).collect()
}

static THOROUGH_RUNS: std::sync::atomic::AtomicBool = std::sync::atomic::AtomicBool::new(false);
fn thorough_runs() -> bool {
    THOROUGH_RUNS.load(std::sync::atomic::Ordering::Relaxed)
}

fn build_cases(kinds: &[&'static str], l1: usize, l23: usize, long: bool, aligns: &[usize]) -> Vec<Case> {
    let nd = [0x00u8, 0x80, 0xff];
    let other = 0x01u8;
    let mut cases = vec![];
    for &kind in kinds {
        let k = kind_k(kind);
        let lmax = if k == 1 { l1 } else { l23 };
        for len in 0..=lmax {
            let total = enumr::pow(k as u64 + 1, len as u32);
            let mut data = vec![0u8; len];
            enumr::for_strings(k as u8 + 1, len, 0, total, |_, roles| {
                for (d, r) in data.iter_mut().zip(roles) {
                    *d = if *r == 0 { other } else { nd[*r as usize - 1] };
                }
                for &a in aligns {
                    let hay = crate::leak_placed(&data, a, nd[0]);
                    cases.push(Case { kind, nd, hay, align: a, positions: positions(k, nd, hay) });
                }
            });
        }
        // repeated needle bytes (Two / Three): (a,a), (a,b,b), (a,a,b), (a,b,a), (a,a,a)
        if k >= 2 {
            let dups: &[[u8; 3]] = if k == 2 { &[[0x61, 0x61, 0x61]] } else { &[[0x61, 0x62, 0x62], [0x61, 0x61, 0x62], [0x61, 0x62, 0x61], [0x61, 0x61, 0x61]] };
            for &dn in dups {
                let lmax = lmax.min(7);
                for len in 0..=lmax {
                    // strings over {other, a, b}
                    let total = enumr::pow(3, len as u32);
                    let mut data = vec![0u8; len];
                    enumr::for_strings(3, len, 0, total, |_, roles| {
                        for (d, r) in data.iter_mut().zip(roles) {
                            *d = [b'.', 0x61, 0x62][*r as usize];
                        }
                        let hay = crate::leak_placed(&data, 1, b'.');
                        cases.push(Case { kind, nd: dn, hay, align: 1, positions: positions(k, dn, hay) });
                    });
                }
            }
        }
        if long {
            // run shapes m^R o^G m^S (o^2): a RUN of adjacent matches of every
            // length around 16, 32 (thorough: every length up to 70) followed
            // by a gap and a second run - iterators that change mode after a
            // number of consecutive events
            let rs: Vec<usize> = if thorough_runs() { (0..=70).collect() } else { vec![1, 2, 8, 14, 15, 16, 17, 18, 19, 20, 30, 31, 32, 33, 34, 35] };
            let gs: &[usize] = if thorough_runs() { &[1, 2, 17] } else { &[1, 2] };
            let ss: &[usize] = if thorough_runs() { &[0, 1, 2, 20] } else { &[0, 2] };
            for &rl in &rs {
                for &g in gs {
                    for &sl in ss {
                        for lead in [0usize, 1] {
                            if lead == 1 && !(rl == 17 || rl == 18 || rl == 33 || thorough_runs()) {
                                continue;
                            }
                            let mut data = vec![other; lead];
                            data.extend((0..rl).map(|i| nd[i % k]));
                            data.extend(std::iter::repeat(other).take(g));
                            data.extend((0..sl).map(|i| nd[(i + 1) % k]));
                            if sl > 0 {
                                data.extend_from_slice(&[other, other]);
                            }
                            let hay = crate::leak_placed(&data, 3, nd[0]);
                            cases.push(Case { kind, nd, hay, align: 3, positions: positions(k, nd, hay) });
                        }
                    }
                }
            }
            // stride shapes: R matches exactly d bytes apart (d = 2..=9), then
            // a disruption of the rhythm - an extra match directly before /
            // after the next on-stride position, the on-stride match missing,
            // or one byte early / late - and a tail
            let reps: Vec<usize> = if thorough_runs() { (14..=40).collect() } else { vec![15, 16, 17, 18, 19, 20] };
            for d in 2..=9usize {
                for &rl in &reps {
                    for disruption in 0..5 {
                        let mut data: Vec<u8> = vec![];
                        for i in 0..rl {
                            data.push(nd[i % k]);
                            data.extend(std::iter::repeat(other).take(d - 1));
                        }
                        // `data.len()` is the next on-stride position
                        match disruption {
                            0 => {
                                let l = data.len();
                                data[l - 1] = nd[0];
                                data.push(nd[(rl + 1) % k]);
                            }
                            1 => {
                                data.push(nd[0]);
                                data.push(nd[(rl + 1) % k]);
                            }
                            2 => data.push(other),
                            3 => {
                                let l = data.len();
                                data[l - 1] = nd[0];
                                data.push(other);
                            }
                            _ => {
                                data.push(other);
                                data.push(nd[0]);
                            }
                        }
                        data.extend(std::iter::repeat(other).take(10));
                        if disruption % 2 == 0 {
                            data.push(nd[0]);
                        }
                        let hay = crate::leak_placed(&data, 5, nd[0]);
                        cases.push(Case { kind, nd, hay, align: 5, positions: positions(k, nd, hay) });
                    }
                }
            }
            // long haystacks: matches inside one vector, at vector and loop
            // boundaries, sparse, and all-match
            for &len in &[70usize, 200, 300] {
                let mut variants: Vec<Vec<usize>> = vec![
                    vec![],
                    vec![0],
                    vec![len - 1],
                    vec![0, len - 1],
                    vec![31, 32],
                    vec![15, 16, 17],
                    vec![63, 64, 65],
                    vec![len / 2, len / 2 + 1, len / 2 + 2],
                    vec![1, 33, 65, len - 2],
                    vec![127.min(len - 1), 128.min(len - 1)],
                ];
                variants.push((0..len).step_by(29).collect());
                variants.push((0..len).collect::<Vec<_>>().into_iter().filter(|i| i % 50 == 0 || i % 50 == 49).collect());
                for v in variants {
                    let mut data = vec![other; len];
                    for (j, &p) in v.iter().enumerate() {
                        data[p] = nd[j % k];
                    }
                    for &a in &[0usize, 13] {
                        let hay = crate::leak_placed(&data, a, nd[0]);
                        cases.push(Case { kind, nd, hay, align: a, positions: positions(k, nd, hay) });
                    }
                }
                if len == 300 {
                    // every subset of 2..=4 positions of a coarse grid over a
                    // 600-byte haystack: long steps between matches, several
                    // matches left in a long window
                    let grid = [3usize, 140, 150, 290, 300, 440, 450, 590];
                    for mask in 0u32..256 {
                        let n = mask.count_ones();
                        if !(2..=4).contains(&n) {
                            continue;
                        }
                        let mut data = vec![other; 600];
                        let mut j = 0;
                        for (gi, &p) in grid.iter().enumerate() {
                            if mask >> gi & 1 == 1 {
                                data[p] = nd[j % k];
                                j += 1;
                            }
                        }
                        let hay = crate::leak_placed(&data, 7, nd[0]);
                        cases.push(Case { kind, nd, hay, align: 7, positions: positions(k, nd, hay) });
                    }
                }
                if len == 200 {
                    // long AND rich in matches (every byte / every 2nd / every
                    // 3rd byte over 160..300 bytes): skips of dozens of matches
                    // across several vectors
                    for (l2, every) in [(160usize, 1usize), (300, 2), (300, 3)] {
                        let data: Vec<u8> = (0..l2).map(|i| if i % every == 0 { nd[(i / every) % k] } else { other }).collect();
                        let hay = crate::leak_placed(&data, 9, nd[0]);
                        cases.push(Case { kind, nd, hay, align: 9, positions: positions(k, nd, hay) });
                    }
                }
                if len <= 70 {
                    // dense: every byte matches (k+1)(k+2)/2 ~ 2556 states
                    let data: Vec<u8> = (0..len).map(|i| nd[i % k]).collect();
                    let hay = crate::leak_placed(&data, 5, nd[0]);
                    cases.push(Case { kind, nd, hay, align: 5, positions: positions(k, nd, hay) });
                }
            }
        }
    }
    cases
}

pub fn run(args: &Args, thorough: bool, total: &mut Report, bounds: &mut Map<String, Value>, exhaustive: &mut bool) {
    let kinds: Vec<&'static str> = match args.get("kinds") {
        None => default_kinds(),
        Some(s) => s.split(',').map(|x| *KINDS.iter().find(|k| **k == x).expect("kind")).collect(),
    };
    let l1 = args.num("l1", if thorough { 12 } else { 10 }) as usize;
    let l23 = args.num("l23", if thorough { 8 } else { 6 }) as usize;
    let aligns: Vec<usize> = if thorough { vec![0, 1, 7] } else { vec![0, 3] };
    THOROUGH_RUNS.store(thorough, std::sync::atomic::Ordering::Relaxed);
    let cases = build_cases(&kinds, l1, l23, true, &aligns);
    let ncases = cases.len();
    let model = BytesModel {
        cases,
        nontrivial: AtomicU64::new(0),
        exhausted_states: AtomicU64::new(0),
        violations: Mutex::new(vec![]),
        violation_count: AtomicU64::new(0),
    };
    let checker = model.checker().threads(mcore::threads()).spawn_dfs().join();
    let unique = checker.unique_state_count() as u64;
    let generated = checker.state_count() as u64;
    let depth = checker.max_depth();
    let disc = checker.discoveries();
    let m = checker.model();
    total.states += unique;
    total.evaluations += generated;
    total.nontrivial += m.nontrivial.load(Ordering::Relaxed);
    total.bump_by("states/exhausted", m.exhausted_states.load(Ordering::Relaxed));
    total.bump_by("init-states", ncases as u64);
    total.bump_by("max-depth", depth as u64);
    let found = m.violation_count.load(Ordering::Relaxed);
    for v in m.violations.lock().unwrap().drain(..) {
        total.violation(v);
    }
    if !disc.is_empty() {
        *exhaustive = false;
        total.caps_hit.push("the checker stopped at the first counterexample; the state space was not completed".into());
        if found == 0 {
            total.machinery_errors.push("stateright reported a discovery but the model recorded no violation".into());
        }
    } else if found > 0 {
        total.machinery_errors.push("the model recorded a violation but stateright reported no discovery".into());
    }
    // Cross-check of the state key: plain history enumeration (no
    // de-duplication) of all action strings to depth d on a sub-table.
    let d = args.num("hist-depth", if thorough { 10 } else { 8 }) as usize;
    let sub_cases = build_cases(&kinds, 6, 4, false, &[2]);
    let hm = BytesModel {
        cases: sub_cases,
        nontrivial: AtomicU64::new(0),
        exhausted_states: AtomicU64::new(0),
        violations: Mutex::new(vec![]),
        violation_count: AtomicU64::new(0),
    };
    let n_hist = AtomicU64::new(0);
    let rep = mcore::par::run_chunks(hm.cases.len() as u64, 4, |lo, hi, r| {
        for ci in lo..hi {
            let init = hm.init_state(ci as usize);
            for bits in 0..(1u32 << d) {
                let mut st = init.clone();
                for j in 0..d {
                    if st.bad.is_some() {
                        break;
                    }
                    st = hm.step(&st, if bits >> j & 1 == 0 { Act::Next } else { Act::NextBack });
                    r.evaluations += 1;
                }
                n_hist.fetch_add(1, Ordering::Relaxed);
            }
            r.states += 1;
        }
    });
    total.bump_by("undeduplicated-histories", n_hist.load(Ordering::Relaxed));
    total.evaluations += rep.evaluations;
    for v in hm.violations.lock().unwrap().drain(..) {
        total.violation(v);
    }
    total.sample(0, || {
        let c = &m.cases[m.cases.len() / 3];
        json!({"kind": c.kind, "needles": hex(&c.nd[..kind_k(c.kind)]), "haystack": hex(c.hay), "align": c.align, "matches": c.positions, "actions": ["Next", "NextBack"], "explored": "every reachable state of the real iterator"})
    });
    bounds.insert("bytes-model".into(), json!({
        "kinds": kinds, "init_states": ncases, "full_len_k1": l1, "full_len_k23": l23, "aligns": aligns,
        "long_haystacks": [70, 200, 300], "stride_shapes": if thorough { "R = 14..=40 matches d = 2..=9 bytes apart, then 5 disruptions of the rhythm" } else { "R = 15..=20 matches d = 2..=9 bytes apart, then 5 disruptions of the rhythm" }, "run_shapes": if thorough { "m^R o^G m^S for R in 0..=70, G in {1,2,17}, S in {0,1,2,20}" } else { "m^R o^G m^S for R in {1,2,8,14..20,30..35}, G in {1,2}, S in {0,2}" }, "unique_states": unique, "generated_states": generated, "max_depth": depth,
        "history_cross_check": {"depth": d, "histories": n_hist.load(Ordering::Relaxed)},
    }));
}

pub fn replay(args: &Args) {
    let kind: &'static str = KINDS.iter().find(|k| **k == args.str("kind", "top1")).expect("kind");
    let ndv = unhex(&args.str("needles", "0080ff"));
    let nd = [ndv[0], ndv[1], ndv[2]];
    let h = args.str("hay", "-");
    let data = if h == "-" { vec![] } else { unhex(&h) };
    let align = args.num("align", 0) as usize;
    let acts = args.str("actions", "-");
    let mut verdicts = vec![];
    for _ in 0..2 {
        let hay = crate::leak_placed(&data, align, nd[0]);
        let model = BytesModel {
            cases: vec![Case { kind, nd, hay, align, positions: positions(kind_k(kind), nd, hay) }],
            nontrivial: AtomicU64::new(0),
            exhausted_states: AtomicU64::new(0),
            violations: Mutex::new(vec![]),
            violation_count: AtomicU64::new(0),
        };
        let r = guarded(|| {
            let mut st = model.init_state(0);
            for c in acts.chars().filter(|c| *c == 'N' || *c == 'B') {
                if st.bad.is_some() {
                    break;
                }
                st = model.step(&st, if c == 'N' { Act::Next } else { Act::NextBack });
            }
            st.bad.as_ref().map(|b| b.to_string())
        });
        verdicts.push(match r {
            Ok(v) => v,
            Err(p) => Some(format!("panicked: {}", p)),
        });
    }
    assert_eq!(verdicts[0], verdicts[1], "replay is not deterministic");
    match &verdicts[0] {
        Some(w) => {
            println!("REPLAY-VIOLATION {}", w);
            std::process::exit(1)
        }
        None => {
            println!("REPLAY-OK no violation on this history");
            std::process::exit(0)
        }
    }
}
