//! Engine H: explicit-state exploration of operation histories with
//! stateright. The model's state *is* the real object (Memchr, OneIter,
//! FindIter, FindRevIter, Finder, ...); its identity is the object's Debug
//! rendering plus the reference model's counters. Every transition executes
//! the real method on a clone of the real object and is compared with the
//! reference model; per-state checks (size_hint, count of a clone, stickiness
//! of None) run when a state is generated.

#[path = "../ss/alloc.rs"]
mod alloc;
mod bytes;
mod subs;

#[global_allocator]
static GLOBAL: alloc::Counting = alloc::Counting;

use mcore::{Args, Report};
use serde_json::{json, Value};

/// Leaks `data` placed at `align_off` bytes past a 64-byte boundary, with
/// `fill` on both sides, and returns the placed slice.
pub fn leak_placed(data: &[u8], align_off: usize, fill: u8) -> &'static [u8] {
    let total = data.len() + 256;
    let buf: &'static mut [u8] = Box::leak(vec![fill; total].into_boxed_slice());
    let base = buf.as_ptr() as usize;
    let start = ((base + 64 + 63) & !63) - base + (align_off % 64);
    buf[start..start + data.len()].copy_from_slice(data);
    &buf[start..start + data.len()]
}

fn main() {
    mcore::run_main(real_main);
}

fn real_main() {
    let args = Args::parse();
    let mode = args.pos.first().map(|s| s.as_str()).unwrap_or("help").to_string();
    let out = args.str("out", "-");
    let t0 = std::time::Instant::now();
    let thorough = args.str("tier", "quick") == "thorough";
    let mut total = Report::default();
    let mut bounds = serde_json::Map::new();
    let mut exhaustive = true;
    match mode.as_str() {
        "bytes" => bytes::run(&args, thorough, &mut total, &mut bounds, &mut exhaustive),
        "bytes-replay" => bytes::replay(&args),
        "subs" => subs::run(&args, thorough, &mut total, &mut bounds, &mut exhaustive),
        "subs-replay" => subs::replay(&args),
        "finder" => subs::run_finder(&args, thorough, &mut total, &mut bounds, &mut exhaustive),
        "finder-replay" => subs::replay_finder(&args),
        _ => {
            eprintln!("usage: it <bytes|subs|finder|*-replay> [--tier quick|thorough] [--out file]");
            std::process::exit(2);
        }
    }
    let extra = json!({
        "engine": "it (stateright 0.31 explicit-state search over the real objects)", "mode": mode,
        "tier": if thorough { "thorough" } else { "quick" },
        "bounds": Value::Object(bounds),
        "nontrivial_rule": "a model state is non-trivial when the real object has been advanced at least once (it is reachable only through a history) and still has matches to yield, or is exhausted after yielding at least two",
        "exhaustive": exhaustive,
        "wall_s": t0.elapsed().as_secs_f64(),
    });
    total.write(&out, &format!("it/{}", mode), extra);
    eprintln!(
        "it/{}: {} states, {} transitions, {} non-trivial, {} violations, {:.1}s",
        mode,
        total.states,
        total.evaluations,
        total.nontrivial,
        total.violation_count,
        t0.elapsed().as_secs_f64()
    );
}
