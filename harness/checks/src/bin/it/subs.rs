//! Models over the substring iterators (C08), their clone / into_owned
//! conversions and finder reuse (C16).

use std::fmt::Debug;
use std::hash::{Hash, Hasher};
use std::sync::atomic::{AtomicU64, Ordering};
use std::sync::{Arc, Mutex};

use mcore::{enumr, guarded, hex, oracle, unhex, Args, Report, Violation};
use memchr::arch::all::packedpair::Pair;
use memchr::memmem::{self, FindIter, FindRevIter, Finder, FinderBuilder, FinderRev, Prefilter};
use serde_json::{json, Map, Value};
use stateright::{Checker, Model, Property};

#[path = "../ss/spaces.rs"]
#[allow(dead_code)]
mod spaces;

fn leak_bytes(b: &[u8]) -> &'static [u8] {
    Box::leak(b.to_vec().into_boxed_slice())
}

fn leak<T>(t: T) -> &'static T {
    Box::leak(Box::new(t))
}

#[derive(Clone, Debug)]
pub enum SubIt {
    F(FindIter<'static, 'static>),
    R(FindRevIter<'static, 'static>),
}

impl SubIt {
    fn next(&mut self) -> Option<usize> {
        match self {
            SubIt::F(i) => i.next(),
            SubIt::R(i) => i.next(),
        }
    }
    fn size_hint(&self) -> (usize, Option<usize>) {
        match self {
            SubIt::F(i) => i.size_hint(),
            SubIt::R(i) => i.size_hint(),
        }
    }
    /// std adaptors on a clone: nth(1) then next(), and - for short
    /// remainders - count() and last()
    fn adaptors(&self, short: bool) -> [Option<usize>; 4] {
        fn run<I: Iterator<Item = usize> + Clone>(i: &I, short: bool) -> [Option<usize>; 4] {
            let mut a = i.clone();
            let n1 = a.nth(1);
            let after = a.next();
            let (cnt, last) = if short { (Some(i.clone().count()), i.clone().last()) } else { (None, None) };
            [n1, after, cnt, last]
        }
        match self {
            SubIt::F(i) => run(i, short),
            SubIt::R(i) => run(i, short),
        }
    }
    fn into_owned(self) -> SubIt {
        match self {
            SubIt::F(i) => SubIt::F(i.into_owned()),
            SubIt::R(i) => SubIt::R(i.into_owned()),
        }
    }
    fn dbg(&self) -> String {
        format!("{:?}", self)
    }
}

#[derive(Clone, Copy, Debug, PartialEq, Eq)]
pub enum Source {
    /// memmem::find_iter / rfind_iter
    Top,
    /// Finder::find_iter / FinderRev::rfind_iter on a long-lived finder
    Finder,
    /// as Finder, built with Prefilter::None
    FinderNoPre,
}

pub struct Case {
    rev: bool,
    source: Source,
    needle: &'static [u8],
    hay: &'static [u8],
    reference: Vec<usize>,
    family: &'static str,
}

fn make(rev: bool, source: Source, needle: &'static [u8], hay: &'static [u8]) -> SubIt {
    match (rev, source) {
        (false, Source::Top) => SubIt::F(memmem::find_iter(hay, needle)),
        (true, Source::Top) => SubIt::R(memmem::rfind_iter(hay, needle)),
        (false, Source::Finder) => SubIt::F(leak(Finder::new(needle)).find_iter(hay)),
        (false, Source::FinderNoPre) => {
            SubIt::F(leak(FinderBuilder::new().prefilter(Prefilter::None).build_forward(needle)).find_iter(hay))
        }
        (true, _) => SubIt::R(leak(FinderRev::new(needle)).rfind_iter(hay)),
    }
}

#[derive(Clone, Copy, Debug, PartialEq, Eq, Hash)]
pub enum Act {
    Next,
    Clone,
    IntoOwned,
}

#[derive(Clone)]
pub struct St {
    case: u32,
    it: SubIt,
    taken: u32,
    /// number of next() calls that returned None (horizon: a search that
    /// finds nothing may still update the prefilter counters, so the real
    /// object keeps changing after exhaustion)
    post: u8,
    bad: Option<Arc<String>>,
    hist: Vec<Act>,
}

impl Hash for St {
    fn hash<H: Hasher>(&self, h: &mut H) {
        self.case.hash(h);
        self.it.dbg().hash(h);
        self.taken.hash(h);
        self.post.hash(h);
        self.bad.is_some().hash(h);
    }
}

impl PartialEq for St {
    fn eq(&self, o: &St) -> bool {
        self.case == o.case && self.taken == o.taken && self.post == o.post && self.bad.is_some() == o.bad.is_some() && self.it.dbg() == o.it.dbg()
    }
}

impl Debug for St {
    fn fmt(&self, f: &mut std::fmt::Formatter) -> std::fmt::Result {
        write!(f, "case {} taken={} {}", self.case, self.taken, self.it.dbg())
    }
}

pub struct SubModel {
    cases: Vec<Case>,
    with_conversions: bool,
    nontrivial: AtomicU64,
    inert_states: AtomicU64,
    flip_transitions: AtomicU64,
    owned_states: AtomicU64,
    violations: Mutex<Vec<Violation>>,
    violation_count: AtomicU64,
}

fn show(b: &[u8]) -> String {
    if b.len() <= 40 && b.iter().all(|c| c.is_ascii_graphic() || *c == b' ') {
        format!("\"{}\"", String::from_utf8_lossy(b))
    } else if b.len() <= 40 {
        format!("0x{}", hex(b))
    } else {
        format!("0x{}..({} bytes)", hex(&b[..16]), b.len())
    }
}

fn acts_str(h: &[Act]) -> String {
    h.iter()
        .map(|a| match a {
            Act::Next => 'N',
            Act::Clone => 'C',
            Act::IntoOwned => 'O',
        })
        .collect()
}

impl SubModel {
    fn new(cases: Vec<Case>, with_conversions: bool) -> SubModel {
        SubModel {
            cases,
            with_conversions,
            nontrivial: AtomicU64::new(0),
            inert_states: AtomicU64::new(0),
            flip_transitions: AtomicU64::new(0),
            owned_states: AtomicU64::new(0),
            violations: Mutex::new(vec![]),
            violation_count: AtomicU64::new(0),
        }
    }

}

fn state_checks_case(c: &Case, st: &St) -> Option<String> {
    let remaining = c.reference.len() - st.taken as usize;
    let (lo, hi) = st.it.size_hint();
    if lo > remaining {
        return Some(format!("size_hint lower bound {} exceeds the {} matches still to come", lo, remaining));
    }
    if let Some(hi) = hi {
        if hi < remaining {
            return Some(format!("size_hint upper bound {} is below the {} matches still to come", hi, remaining));
        }
    }
    if remaining == 0 {
        let mut it = st.it.clone();
        for i in 0..3 {
            if let Some(p) = it.next() {
                return Some(format!("exhausted iterator yielded {} (extra call {})", p, i));
            }
        }
    }
    if st.taken <= 1 || remaining <= 3 {
        let short = remaining <= 3;
        let rem = &c.reference[st.taken as usize..];
        let exp = [rem.get(1).copied(), rem.get(2).copied(), if short { Some(rem.len()) } else { None }, if short { rem.last().copied() } else { None }];
        let got = st.it.adaptors(short);
        if got != exp {
            let names = ["nth(1)", "next() after nth(1)", "count()", "last()"];
            let i = (0..4).find(|&i| got[i] != exp[i]).unwrap();
            return Some(format!("{} on a clone returned {:?}, reference {:?}", names[i], got[i], exp[i]));
        }
    }
    None
}

fn violation_for(c: &Case, st: &St, what: &str) -> Violation {
    let acts = acts_str(&st.hist);
    let class = if what.starts_with("ALLOC ") { "alloc" } else { "wrong_result" };
    Violation {
        class: class.into(),
        key: ((c.needle.len() as u64) << 40) | ((c.hay.len() as u64) << 16) | st.hist.len() as u64,
        what: format!(
            "[{}] {} {:?} needle={} haystack={} (len {}) after history [{}]: {}",
            class,
            if c.rev { "rfind_iter" } else { "find_iter" },
            c.source,
            show(c.needle),
            show(c.hay),
            c.hay.len(),
            acts,
            what
        ),
        replay_argv: vec![
            "subs-replay".into(),
            "--rev".into(),
            (c.rev as u8).to_string(),
            "--source".into(),
            format!("{:?}", c.source),
            "--needle".into(),
            if c.needle.is_empty() { "-".into() } else { hex(c.needle) },
            "--hay".into(),
            if c.hay.is_empty() { "-".into() } else { hex(c.hay) },
            "--actions".into(),
            if acts.is_empty() { "-".into() } else { acts.clone() },
        ],
        detail: json!({"class": class, "rev": c.rev, "source": format!("{:?}", c.source), "needle": hex(c.needle), "haystack": hex(c.hay), "history": acts, "family": c.family}),
    }
}

fn init_state_case(c: &Case, i: usize) -> St {
    let mut st = St { case: i as u32, it: make(c.rev, c.source, c.needle, c.hay), taken: 0, post: 0, bad: None, hist: vec![] };
    if let Some(w) = state_checks_case(c, &st) {
        st.bad = Some(Arc::new(w));
    }
    st
}

/// One transition of the real object, compared with the reference model.
/// Returns the new state (with `bad` set on a violation) and whether the
/// prefilter flipped to its inert state during this step.
fn step_case(c: &Case, last: &St, act: Act) -> (St, bool) {
    let mut flipped = false;
    let mut st = last.clone();
    st.hist.push(act);
    let mut bad = None;
    match act {
        Act::Next => {
            // The Debug rendering is only needed to observe the prefilter
            // counters; a yield that leaves the state unchanged would show up
            // as a disagreement with the (finite) reference sequence anyway.
            let watch = c.family.starts_with("PF");
            let before = if watch { last.it.dbg() } else { String::new() };
            let a0 = crate::alloc::allocs();
            let got = st.it.next();
            let made = crate::alloc::allocs() - a0;
            let exp = c.reference.get(last.taken as usize).copied();
            if made > 0 {
                bad = Some(format!("ALLOC next() made {} heap allocation(s)", made));
            } else if got != exp {
                bad = Some(format!("next() returned {:?}, reference model {:?}", got, exp));
            } else if got.is_none() {
                st.post += 1;
            } else {
                st.taken += 1;
                let after = if watch { st.it.dbg() } else { String::from("-") };
                if after == before {
                    bad = Some(format!("next() yielded {:?} but left the iterator unchanged (would never terminate)", got));
                }
                if !before.contains("skips: 0,") && after.contains("skips: 0,") {
                    flipped = true;
                }
            }
        }
        Act::Clone => {
            let a0 = crate::alloc::allocs();
            st.it = last.it.clone();
            let made = crate::alloc::allocs() - a0;
            // cloning a BORROWED iterator must not touch the heap (an owned
            // one has to copy its boxed needle)
            if made > 0 && !last.hist.contains(&Act::IntoOwned) {
                bad = Some(format!("ALLOC clone() of a borrowed iterator made {} heap allocation(s)", made));
            } else if st.it.dbg() != last.it.dbg() {
                bad = Some("clone() renders differently from the original".into());
            }
        }
        Act::IntoOwned => {
            st.it = last.it.clone().into_owned();
        }
    }
    if bad.is_none() {
        bad = state_checks_case(c, &st);
    }
    if let Some(w) = bad {
        st.bad = Some(Arc::new(w));
    }
    (st, flipped)
}

impl SubModel {
    fn record(&self, st: &St) {
        if let Some(w) = &st.bad {
            let c = &self.cases[st.case as usize];
            self.violation_count.fetch_add(1, Ordering::Relaxed);
            let mut v = self.violations.lock().unwrap();
            if v.len() < 64 {
                v.push(violation_for(c, st, w));
            }
        }
    }

    fn init_state(&self, i: usize) -> St {
        let st = init_state_case(&self.cases[i], i);
        self.record(&st);
        st
    }

    fn step(&self, last: &St, act: Act) -> St {
        let (st, flipped) = step_case(&self.cases[last.case as usize], last, act);
        if flipped {
            self.flip_transitions.fetch_add(1, Ordering::Relaxed);
        }
        self.record(&st);
        st
    }
}

impl Model for SubModel {
    type State = St;
    type Action = Act;

    fn init_states(&self) -> Vec<St> {
        (0..self.cases.len())
            .filter_map(|i| match guarded(|| self.init_state(i)) {
                Ok(st) => Some(st),
                Err(msg) => {
                    let c = &self.cases[i];
                    self.violation_count.fetch_add(1, Ordering::Relaxed);
                    self.violations.lock().unwrap().push(Violation {
                        class: "panic".into(),
                        key: 0,
                        what: format!("[panic] creating the iterator for needle={} haystack={} panicked: {}", show(c.needle), show(c.hay), msg),
                        replay_argv: vec![],
                        detail: json!({"class": "panic", "needle": hex(c.needle), "haystack": hex(c.hay)}),
                    });
                    None
                }
            })
            .collect()
    }

    fn actions(&self, st: &St, actions: &mut Vec<Act>) {
        if st.bad.is_none() && st.post < 3 {
            actions.push(Act::Next);
            if self.with_conversions {
                actions.push(Act::Clone);
                actions.push(Act::IntoOwned);
            }
        }
    }

    fn next_state(&self, last: &St, act: Act) -> Option<St> {
        match guarded(|| self.step(last, act)) {
            Ok(st) => Some(st),
            Err(msg) => {
                let mut st = last.clone();
                st.hist.push(act);
                st.bad = Some(Arc::new(format!("{:?} panicked: {}", act, msg)));
                self.record(&st);
                Some(st)
            }
        }
    }

    fn properties(&self) -> Vec<Property<Self>> {
        vec![Property::always("conforms to the greedy reference sequence", |m: &SubModel, st: &St| {
            let c = &m.cases[st.case as usize];
            let remaining = c.reference.len() - st.taken as usize;
            if (st.taken >= 1 && remaining > 0) || (remaining == 0 && st.taken >= 2) {
                m.nontrivial.fetch_add(1, Ordering::Relaxed);
            }
            let d = st.it.dbg();
            if d.contains("skips: 0,") {
                m.inert_states.fetch_add(1, Ordering::Relaxed);
            }
            if d.contains("Owned(") {
                m.owned_states.fetch_add(1, Ordering::Relaxed);
            }
            st.bad.is_none()
        })]
    }
}

fn pf_needles() -> Vec<Vec<u8>> {
    spaces::pf_needles()
}

fn pf_haystacks(needle: &[u8], thorough: bool) -> Vec<Vec<u8>> {
    let p = Pair::new(needle).expect("pair");
    spaces::pf_haystacks(needle, p.index1() as usize, p.index2() as usize, thorough)
}

fn build_cases(thorough: bool, families: &str, max_cases: usize) -> Vec<Case> {
    let mut cases: Vec<Case> = vec![];
    let mut push = |rev: bool, source: Source, needle: &'static [u8], hay: &'static [u8], family: &'static str| {
        let reference = if rev { oracle::rfind_all(hay, needle) } else { oracle::find_all(hay, needle) };
        cases.push(Case { rev, source, needle, hay, reference, family });
    };
    if families.contains("e2") {
        let nmax = if thorough { 5 } else { 4 };
        let hmax = if thorough { 13 } else { 11 };
        let needles = spaces::AllStrings { letters: b"ab".to_vec(), minlen: 0, maxlen: nmax }.all();
        let hays = spaces::AllStrings { letters: b"ab".to_vec(), minlen: 0, maxlen: hmax }.all();
        let hays: Vec<&'static [u8]> = hays.iter().map(|h| leak_bytes(h)).collect();
        for n in &needles {
            let n = leak_bytes(n);
            for h in &hays {
                push(false, Source::Top, n, h, "E2");
                push(true, Source::Top, n, h, "E2");
                if h.len() >= hmax - 1 {
                    push(false, Source::Finder, n, h, "E2");
                    push(false, Source::FinderNoPre, n, h, "E2");
                    push(true, Source::Finder, n, h, "E2");
                }
            }
        }
    }
    if families.contains("pad") {
        // short needles in long haystacks: the real vector searchers
        let needles = spaces::AllStrings { letters: b"ab".to_vec(), minlen: 0, maxlen: 3 }.all();
        let cores = spaces::AllStrings { letters: b"ab".to_vec(), minlen: 0, maxlen: if thorough { 8 } else { 6 } }.all();
        for n in &needles {
            let n = leak_bytes(n);
            for c in &cores {
                for &(pl, pr, fill) in &[(17usize, 0usize, b'z'), (0, 33, b'z'), (31, 16, b'a'), (64, 64, b'b')] {
                    let mut h = vec![fill; pl];
                    h.extend_from_slice(c);
                    h.extend(std::iter::repeat(fill).take(pr));
                    let h = leak_bytes(&h);
                    push(false, Source::Top, n, h, "E2pad");
                    push(true, Source::Top, n, h, "E2pad");
                }
            }
        }
    }
    if families.contains("ln") {
        let lens: &[usize] = if thorough { &[33, 40, 65] } else { &[33] };
        for n in spaces::ln_needles(lens, if thorough { 3 } else { 2 }) {
            let hays = spaces::factor_haystacks(&n, None, 2, if thorough { 6 } else { 3 }, 4 * n.len() + 64);
            let n = leak_bytes(&n);
            for h in hays {
                let h = leak_bytes(&h);
                push(false, Source::Finder, n, h, "LN");
                push(true, Source::Finder, n, h, "LN");
            }
        }
    }
    if families.contains("pf") {
        for n in pf_needles() {
            let hays = pf_haystacks(&n, thorough);
            let n = leak_bytes(&n);
            for h in hays {
                let h = leak_bytes(&h);
                push(false, Source::Finder, n, h, "PF");
                push(false, Source::Top, n, h, "PF");
            }
        }
    }
    if families.contains("zoo") {
        // the prefilter is first driven inert (70 false candidates at gap 2),
        // then the iterator meets every factor haystack of the needle
        for n in pf_needles() {
            let p = Pair::new(&n).expect("pair");
            let prefix = spaces::pf_haystack(&n, p.index1() as usize, p.index2() as usize, b'.', 0, 70, 2, None);
            let zoo = spaces::factor_haystacks(&n, None, 1, 2, 4 * n.len() + 64);
            let n = leak_bytes(&n);
            for z in zoo {
                let mut h = prefix.clone();
                h.extend_from_slice(&z);
                let h = leak_bytes(&h);
                push(false, Source::Finder, n, h, "PF+zoo");
            }
        }
    }
    if families.contains("tile") {
        // Back-to-back and self-overlapping occurrences of needles of EVERY
        // length class (short, around one / two vector widths, Two-Way): the
        // needle is the length-L prefix of w^inf for a word w of p distinct
        // letters (period p; p = L: no border), the haystack every sequence
        // of <= 3 (thorough 4) tiles out of {needle, one period of it, its
        // L-1 byte prefix (near miss), its last period, one filler byte, 16
        // filler bytes}. This is where an iterator's "what do I know after
        // the previous match" shortcuts live: adjacent matches, a candidate
        // that overlaps the match just reported, a match closer to the
        // haystack start / end than one needle length (after seeded change
        // RVE: needs >= 17 byte needles, two adjacent matches and then a
        // position inside [16, L)).
        let lens: &[usize] = if thorough { &[2, 3, 4, 5, 7, 8, 9, 15, 16, 17, 18, 20, 24, 31, 32, 33, 34, 40, 48, 63, 64, 65, 80] } else { &[3, 5, 8, 16, 17, 20, 32, 33, 40, 65] };
        let depth = if thorough { 4 } else { 3 };
        for &l in lens {
            let mut periods: Vec<usize> = vec![1, 2, 3, 5, 8, 16, 17, l / 2, l / 2 + 1, l - 1, l];
            periods.retain(|&p| p >= 1 && p <= l);
            periods.sort();
            periods.dedup();
            for &p in &periods {
                let needle: Vec<u8> = (0..l).map(|i| b'0' + (i % p) as u8).collect();
                let tiles: Vec<Vec<u8>> = vec![needle.clone(), needle[..p.min(l)].to_vec(), needle[..l - 1].to_vec(), needle[l - p.min(l)..].to_vec(), b"#".to_vec(), vec![b'#'; 16]];
                let n = leak_bytes(&needle);
                let mut idx = vec![0usize; depth];
                for k in 1..=depth {
                    let total = tiles.len().pow(k as u32);
                    for code in 0..total {
                        let mut c = code;
                        for slot in idx.iter_mut().take(k) {
                            *slot = c % tiles.len();
                            c /= tiles.len();
                        }
                        // at least one full needle, or two partial tiles
                        if !idx[..k].iter().any(|&t| t == 0) && k < 2 {
                            continue;
                        }
                        let mut h: Vec<u8> = vec![];
                        for &t in &idx[..k] {
                            h.extend_from_slice(&tiles[t]);
                        }
                        let h = leak_bytes(&h);
                        push(false, Source::Finder, n, h, "TILE");
                        push(true, Source::Finder, n, h, "TILE");
                        if k == depth {
                            push(false, Source::Top, n, h, "TILE");
                            push(true, Source::Top, n, h, "TILE");
                        }
                    }
                }
            }
        }
    }
    if cases.len() > max_cases {
        cases.truncate(max_cases);
    }
    cases
}

fn explore(model: SubModel, total: &mut Report, exhaustive: &mut bool) -> (u64, u64, usize) {
    let checker = model.checker().threads(mcore::threads()).spawn_dfs().join();
    let unique = checker.unique_state_count() as u64;
    let generated = checker.state_count() as u64;
    let depth = checker.max_depth();
    let disc = checker.discoveries();
    let m = checker.model();
    total.states += unique;
    total.evaluations += generated;
    total.nontrivial += m.nontrivial.load(Ordering::Relaxed);
    total.bump_by("states/prefilter inert (skips: 0 in the real object)", m.inert_states.load(Ordering::Relaxed));
    total.bump_by("transitions/prefilter flipped to inert", m.flip_transitions.load(Ordering::Relaxed));
    total.bump_by("states/owned form", m.owned_states.load(Ordering::Relaxed));
    for fam in ["E2", "E2pad", "LN", "PF"] {
        total.bump_by(&format!("init-states/{}", fam), m.cases.iter().filter(|c| c.family == fam).count() as u64);
    }
    let found = m.violation_count.load(Ordering::Relaxed);
    for v in m.violations.lock().unwrap().drain(..) {
        total.violation(v);
    }
    if !disc.is_empty() {
        *exhaustive = false;
        total.caps_hit.push("the checker stopped at the first counterexample; the state space was not completed".into());
        if found == 0 {
            total.machinery_errors.push("stateright reported a discovery but the model recorded no violation".into());
        }
    } else if found > 0 && !total.violations.iter().any(|v| v.class == "panic") {
        total.machinery_errors.push("the model recorded a violation but stateright reported no discovery".into());
    }
    if let Some(c) = m.cases.iter().find(|c| c.family == "PF" && c.reference.len() >= 2).or(m.cases.last()) {
        total.sample(1, || json!({"iterator": if c.rev { "rfind_iter" } else { "find_iter" }, "source": format!("{:?}", c.source), "needle": show(c.needle), "haystack": show(c.hay), "haystack_len": c.hay.len(), "reference_matches": c.reference, "family": c.family}));
    }
    if let Some(c) = m.cases.iter().find(|c| c.family == "E2" && c.reference.len() >= 3) {
        total.sample(0, || json!({"iterator": if c.rev { "rfind_iter" } else { "find_iter" }, "source": format!("{:?}", c.source), "needle": show(c.needle), "haystack": show(c.hay), "reference_matches": c.reference, "family": c.family}));
    }
    (unique, generated, depth)
}

/// Extends a borrow to 'static for the duration of one walked case. The
/// walker drops every object derived from it before the buffer is reused.
unsafe fn fake_static(b: &[u8]) -> &'static [u8] {
    std::slice::from_raw_parts(b.as_ptr(), b.len())
}

/// Walks the single chain of Next transitions of one case on the real
/// iterator (the state graph of a forward-only iterator is a path, so the
/// walk visits every reachable state exactly once).
fn walk(c: &Case, r: &mut Report) {
    let mut st = init_state_case(c, 0);
    loop {
        r.states += 1;
        let remaining = c.reference.len() - st.taken as usize;
        if (st.taken >= 1 && remaining > 0) || (remaining == 0 && st.taken >= 2) {
            r.nontrivial += 1;
        }
        if c.family == "PF" && st.it.dbg().contains("skips: 0,") {
            r.bump("states/prefilter inert (skips: 0 in the real object)");
        }
        if let Some(w) = &st.bad {
            r.violation(violation_for(c, &st, w));
            return;
        }
        if st.post >= 3 {
            return;
        }
        let (n, flipped) = step_case(c, &st, Act::Next);
        r.evaluations += 1;
        if flipped {
            r.bump("transitions/prefilter flipped to inert");
        }
        st = n;
    }
}

fn walk_guarded(c: &Case, r: &mut Report) {
    if let Err(msg) = guarded(|| {
        let mut rr = Report::default();
        walk(c, &mut rr);
        rr
    })
    .map(|rr| r.merge(rr))
    {
        r.violation(Violation {
            class: "panic".into(),
            key: c.needle.len() as u64,
            what: format!("[panic] iterating needle={} haystack={} panicked: {}", show(c.needle), show(c.hay), msg),
            replay_argv: vec!["subs-replay".into(), "--rev".into(), (c.rev as u8).to_string(), "--source".into(), format!("{:?}", c.source), "--needle".into(), if c.needle.is_empty() { "-".into() } else { hex(c.needle) }, "--hay".into(), if c.hay.is_empty() { "-".into() } else { hex(c.hay) }, "--actions".into(), "NNNNNNNNNNNNNNNNNNNNNNNNNNNNNNNN".into()],
            detail: json!({"class": "panic", "needle": hex(c.needle), "haystack": hex(c.hay)}),
        });
    }
}

/// C08: every prefix of every iteration (single action Next) over all
/// families, plus a stateright run over the LN/PF table that must agree with
/// the walker on the number of states.
pub fn run(args: &Args, thorough: bool, total: &mut Report, bounds: &mut Map<String, Value>, exhaustive: &mut bool) {
    // (1) E2, lazily generated: all needles x all haystacks over {a,b}
    let nmax = args.num("nmax", if thorough { 6 } else { 5 }) as usize;
    let hmax = args.num("hmax", if thorough { 15 } else { 13 }) as usize;
    let needles = spaces::AllStrings { letters: b"ab".to_vec(), minlen: 0, maxlen: nmax }.all();
    let hays = spaces::AllStrings { letters: b"ab".to_vec(), minlen: 0, maxlen: hmax };
    let ht = hays.total();
    let chunk = 2048u64;
    let nchunks = (ht + chunk - 1) / chunk;
    let rep = mcore::par::run_chunks(needles.len() as u64 * nchunks, 1, |lo, hi, r| {
        for it in lo..hi {
            let needle = &needles[(it / nchunks) as usize];
            let c = it % nchunks;
            let fwd = leak(Finder::new(unsafe { fake_static(needle) }));
            let _ = fwd;
            hays.for_range(c * chunk, ((c + 1) * chunk).min(ht), |_, h| {
                let (n, h) = unsafe { (fake_static(needle), fake_static(h)) };
                let f = oracle::find_all(h, n);
                let rv = oracle::rfind_all(h, n);
                walk_guarded(&Case { rev: false, source: Source::Top, needle: n, hay: h, reference: f, family: "E2" }, r);
                walk_guarded(&Case { rev: true, source: Source::Top, needle: n, hay: h, reference: rv, family: "E2" }, r);
            });
        }
    });
    total.merge(rep);
    // (1b) SF, lazily generated: short needles over {a,b,c} against pairs /
    // triples of their own near-occurrences, padded past the Rabin-Karp cut-off
    let sf_needles = spaces::AllStrings { letters: b"abc".to_vec(), minlen: 1, maxlen: if thorough { 4 } else { 3 } }.all();
    let sf_cases = AtomicU64::new(0);
    let rep = mcore::par::run_items(&sf_needles, |_, needle, r| {
        for three in [false, true] {
            spaces::sf_haystacks(needle, b"abc", b'#', three, |h| {
                let (n, h) = unsafe { (fake_static(needle), fake_static(h)) };
                let f = oracle::find_all(h, n);
                let rv = oracle::rfind_all(h, n);
                walk_guarded(&Case { rev: false, source: Source::Top, needle: n, hay: h, reference: f, family: "SF" }, r);
                walk_guarded(&Case { rev: true, source: Source::Top, needle: n, hay: h, reference: rv, family: "SF" }, r);
                sf_cases.fetch_add(2, Ordering::Relaxed);
            });
        }
    });
    total.merge(rep);
    total.bump_by("init-states/SF", sf_cases.load(Ordering::Relaxed));
    // (2) the table families
    let families = args.str("families", "pad,ln,pf,zoo,tile");
    let cases = build_cases(thorough, &families, usize::MAX);
    let ncases = cases.len();
    let rep = mcore::par::run_chunks(cases.len() as u64, 16, |lo, hi, r| {
        for i in lo..hi {
            walk_guarded(&cases[i as usize], r);
        }
    });
    for fam in ["E2pad", "LN", "PF", "PF+zoo", "TILE"] {
        total.bump_by(&format!("init-states/{}", fam), cases.iter().filter(|c| c.family == fam).count() as u64);
    }
    total.merge(rep);
    // (3) stateright over the LN+PF table; its unique-state count must equal
    // the walker's on the same table
    let mut walker_states = 0u64;
    let sub: Vec<Case> = build_cases(false, "pad,pf", usize::MAX);
    {
        let mut r = Report::default();
        for c in &sub {
            walk_guarded(c, &mut r);
        }
        walker_states += r.states;
    }
    let nsub = sub.len();
    let mut mr = Report::default();
    let (unique, generated, depth) = explore(SubModel::new(sub, false), &mut mr, exhaustive);
    if mr.violation_count == 0 && unique != walker_states {
        total.machinery_errors.push(format!("stateright found {} unique states but the chain walker {} on the same E2pad+PF table", unique, walker_states));
    }
    total.merge(mr);
    total.bump_by("init-states/E2", needles.len() as u64 * ht * 2);
    bounds.insert("subs".into(), json!({
        "E2": {"needle_len": [0, nmax], "haystack_len": [0, hmax], "iterators": ["find_iter", "rfind_iter"]},
        "table_families": families, "table_cases": ncases, "actions": "Next (every prefix of every iteration, 3 further calls after exhaustion)",
        "stateright_cross_check": {"table": "E2pad+PF", "init_states": nsub, "unique_states": unique, "generated_states": generated, "max_depth": depth, "walker_states_same_table": walker_states},
    }));
}

// ---------------------------------------------------------------- finder reuse (C16)

fn finder_needles(thorough: bool) -> Vec<Vec<u8>> {
    let mut v = spaces::AllStrings { letters: b"ab".to_vec(), minlen: 0, maxlen: if thorough { 6 } else { 4 } }.all();
    v.extend(pf_needles());
    v.extend(spaces::ln_needles(&[33, 65], 2).into_iter().step_by(if thorough { 1 } else { 3 }));
    // every needle length around the sizes a small-buffer / inline
    // representation would use, with last (and first) bytes that could be
    // mistaken for a length or a tag
    let mut lens: Vec<usize> = (1..=40).collect();
    lens.extend_from_slice(&[47, 48, 63, 64, 65, 127, 128, 255, 256, 257]);
    for l in lens {
        for &edge in &[0u8, 1, 7, 8, 15, 16, 17, 23, 24, 31, 32, l as u8, (l as u8).wrapping_sub(1), 0x80, 0xff] {
            let mut n = vec![b'k'; l];
            n[l - 1] = edge;
            v.push(n.clone());
            if !thorough && l > 40 {
                continue;
            }
            let mut n2 = vec![b'k'; l];
            n2[0] = edge;
            v.push(n2);
        }
    }
    v.sort();
    v.dedup();
    v
}

fn finder_haystacks(needle: &[u8]) -> Vec<Vec<u8>> {
    let m = needle.len();
    let mut hs: Vec<Vec<u8>> = vec![vec![], needle.to_vec()];
    if m > 0 {
        hs.push(needle[..m - 1].to_vec()); // shorter than the needle
    }
    let mut pad = vec![b'.'; 70];
    pad.extend_from_slice(needle);
    hs.push(pad.clone()); // match late in a long haystack
    pad.extend_from_slice(needle);
    pad.extend_from_slice(b"....");
    hs.push(pad); // two matches
    hs.push(vec![b'.'; 100]); // no match
    // same LENGTH as the late-match haystack (and, in the shared-buffer pass,
    // the same address): an additional earlier occurrence with the late one
    // intact, only an early one, none
    if m > 0 && m <= 70 {
        let mut b = needle.to_vec();
        b.extend(std::iter::repeat(b'.').take(70 - m));
        b.extend_from_slice(needle);
        hs.push(b);
        let mut c = needle.to_vec();
        c.extend(std::iter::repeat(b'.').take(70));
        hs.push(c);
        hs.push(vec![b'.'; 70 + m]);
    }
    hs.push(needle.iter().copied().cycle().take(3 * m + 5).collect()); // needle repeated
    if m >= 2 {
        let p = Pair::new(needle).unwrap();
        let (i1, i2) = (p.index1() as usize, p.index2() as usize);
        // exhausts the prefilter (>= 50 candidates at gap 2), match afterwards
        hs.push(spaces::pf_haystack(needle, i1, i2, b'.', 0, 70, 2, Some(3)));
        // keeps the prefilter effective (huge skip first), then dense candidates, no match
        hs.push(spaces::pf_haystack(needle, i1, i2, b'.', 3000, 60, 3, None));
        hs.push(spaces::pf_haystack(needle, i1, i2, b'.', 20, 10, 9, Some(0)));
    }
    let mut nm = needle.to_vec();
    if m > 0 {
        nm[m - 1] ^= 1;
        let mut h = nm.clone();
        h.extend_from_slice(&nm);
        hs.push(h); // near misses only
    }
    hs.push(b"ab".iter().copied().cycle().take(40).collect());
    hs
}

fn viol(total: &mut Report, needle: &[u8], what: String) {
    total.violation(Violation {
        class: "wrong_result".into(),
        key: needle.len() as u64,
        what: format!("[wrong_result] finder for needle {}: {}", show(needle), what),
        replay_argv: vec!["finder-replay".into(), "--needle".into(), if needle.is_empty() { "-".into() } else { hex(needle) }],
        detail: json!({"class": "wrong_result", "needle": hex(needle)}),
    });
}

/// Explores one needle: every sequence of `depth` searches over its haystack
/// set on ONE finder object, in each of the forms original / clone / as_ref /
/// into_owned (owned form built from a heap needle that is overwritten and
/// freed first); plus iterator conversions at every point of an iteration.
fn explore_finder(needle: &[u8], depth: usize, r: &mut Report) {
    let hays = finder_haystacks(needle);
    let fwd_ref: Vec<Option<usize>> = hays.iter().map(|h| oracle::find_sub(h, needle)).collect();
    let rev_ref: Vec<Option<usize>> = hays.iter().map(|h| oracle::rfind_sub(h, needle)).collect();
    let nh = hays.len() as u64;
    let mut shared: Vec<u8> = vec![0u8; hays.iter().map(|h| h.len()).max().unwrap_or(0)];

    // the four forms of the forward and the reverse finder
    let tmp_f: Vec<u8> = needle.to_vec();
    let tmp_r: Vec<u8> = needle.to_vec();
    let orig = Finder::new(needle);
    let origr = FinderRev::new(needle);
    let cl = orig.clone();
    let clr = origr.clone();
    let owned = {
        let mut t = tmp_f;
        let o = Finder::new(&t).into_owned();
        t.iter_mut().for_each(|b| *b = !*b);
        drop(t);
        o
    };
    let ownedr = {
        let mut t = tmp_r;
        let o = FinderRev::new(&t).into_owned();
        t.iter_mut().for_each(|b| *b = !*b);
        drop(t);
        o
    };
    let owned2 = owned.clone().into_owned();
    let fwd_forms: Vec<(&str, Finder<'_>)> =
        vec![("original", orig.clone()), ("clone", cl), ("as_ref", orig.as_ref()), ("into_owned", owned), ("as_ref of owned", owned2.as_ref())];
    let rev_forms: Vec<(&str, FinderRev<'_>)> =
        vec![("original", origr.clone()), ("clone", clr), ("as_ref", origr.as_ref()), ("into_owned", ownedr)];
    let mut problems: Vec<String> = vec![];
    for (name, f) in &fwd_forms {
        r.states += 1;
        if f.needle() != needle {
            problems.push(format!("{} form: needle() returned {} instead of the construction needle", name, show(f.needle())));
        }
        // every history of `depth` searches on this one object
        let total_hist = enumr::pow(nh, depth as u32);
        let mut idx = vec![0u8; depth];
        // placement 0: every haystack in its own allocation; placement 1:
        // every haystack copied into ONE buffer before the search, so that
        // consecutive searches see the same address (and, for haystacks of
        // equal length, the same address AND length) with different content
        for placement in 0..2 {
            for t in 0..total_hist {
                enumr::decode(t, nh, &mut idx);
                for (step, &hi) in idx.iter().enumerate() {
                    r.evaluations += 1;
                    let src = &hays[hi as usize];
                    let got = if placement == 0 {
                        f.find(src)
                    } else {
                        shared[..src.len()].copy_from_slice(src);
                        f.find(&shared[..src.len()])
                    };
                    if got != fwd_ref[hi as usize] {
                        problems.push(format!(
                            "{} form: find on haystack #{} (len {}{}) returned {:?} instead of {:?} after searching haystacks {:?} first",
                            name, hi, src.len(), if placement == 1 { ", all haystacks in one shared buffer" } else { "" }, got, fwd_ref[hi as usize], &idx[..step]
                        ));
                        break;
                    }
                }
                if problems.len() > 3 {
                    break;
                }
            }
            r.bump_by("finder histories", total_hist);
            r.nontrivial += total_hist;
        }
    }
    for (name, f) in &rev_forms {
        r.states += 1;
        if f.needle() != needle {
            problems.push(format!("reverse {} form: needle() returned {} instead of the construction needle", name, show(f.needle())));
        }
        let total_hist = enumr::pow(nh, depth as u32);
        let mut idx = vec![0u8; depth];
        for placement in 0..2 {
            for t in 0..total_hist {
                enumr::decode(t, nh, &mut idx);
                for (step, &hi) in idx.iter().enumerate() {
                    r.evaluations += 1;
                    let src = &hays[hi as usize];
                    let got = if placement == 0 {
                        f.rfind(src)
                    } else {
                        shared[..src.len()].copy_from_slice(src);
                        f.rfind(&shared[..src.len()])
                    };
                    if got != rev_ref[hi as usize] {
                        problems.push(format!(
                            "reverse {} form: rfind on haystack #{} (len {}{}) returned {:?} instead of {:?} after searching haystacks {:?} first",
                            name, hi, src.len(), if placement == 1 { ", all haystacks in one shared buffer" } else { "" }, got, rev_ref[hi as usize], &idx[..step]
                        ));
                        break;
                    }
                }
                if problems.len() > 3 {
                    break;
                }
            }
            r.bump_by("finder histories", total_hist);
            r.nontrivial += total_hist;
        }
    }
    // iterator conversions at every point of an iteration, with the needle
    // buffer destroyed after into_owned
    for (hi, h) in hays.iter().enumerate() {
        let fall = oracle::find_all(h, needle);
        let rall = oracle::rfind_all(h, needle);
        for cut in 0..=fall.len() {
            r.evaluations += 1;
            let mut t = needle.to_vec();
            let mut it = memmem::find_iter(h, &t);
            let head: Vec<usize> = it.by_ref().take(cut).collect();
            let cl = it.clone();
            let mut ow = it.clone().into_owned();
            let rest: Vec<usize> = it.collect();
            let rest_cl: Vec<usize> = cl.collect();
            t.iter_mut().for_each(|b| *b = !*b);
            drop(t);
            let first_ow = ow.next();
            let mut rest_ow: Vec<usize> = first_ow.into_iter().collect();
            rest_ow.extend(ow);
            let mut whole = head.clone();
            whole.extend(&rest);
            if whole != fall || rest_cl != rest || rest_ow != rest {
                problems.push(format!(
                    "find_iter on haystack #{} converted after {} matches: original continues {:?}, clone {:?}, into_owned {:?}, reference {:?}",
                    hi, cut, rest, rest_cl, rest_ow, &fall[cut.min(fall.len())..]
                ));
            }
        }
        for cut in 0..=rall.len() {
            r.evaluations += 1;
            let mut t = needle.to_vec();
            let mut it = memmem::rfind_iter(h, &t);
            let head: Vec<usize> = it.by_ref().take(cut).collect();
            let cl = it.clone();
            let ow = it.clone().into_owned();
            let rest: Vec<usize> = it.collect();
            let rest_cl: Vec<usize> = cl.collect();
            t.iter_mut().for_each(|b| *b = !*b);
            drop(t);
            let rest_ow: Vec<usize> = ow.collect();
            let mut whole = head.clone();
            whole.extend(&rest);
            if whole != rall || rest_cl != rest || rest_ow != rest {
                problems.push(format!(
                    "rfind_iter on haystack #{} converted after {} matches: original continues {:?}, clone {:?}, into_owned {:?}, reference {:?}",
                    hi, cut, rest, rest_cl, rest_ow, &rall[cut.min(rall.len())..]
                ));
            }
        }
    }
    for p in problems.into_iter().take(4) {
        viol(r, needle, p);
    }
}

pub fn run_finder(args: &Args, thorough: bool, total: &mut Report, bounds: &mut Map<String, Value>, exhaustive: &mut bool) {
    let depth = args.num("depth", if thorough { 4 } else { 3 }) as usize;
    let needles = finder_needles(thorough);
    let rep = mcore::par::run_items(&needles, |_, needle, r| {
        match guarded(|| {
            let mut rr = Report::default();
            explore_finder(needle, depth, &mut rr);
            rr
        }) {
            Ok(rr) => r.merge(rr),
            Err(msg) => r.violation(Violation {
                class: "panic".into(),
                key: needle.len() as u64,
                what: format!("[panic] finder histories for needle {} panicked: {}", show(needle), msg),
                replay_argv: vec!["finder-replay".into(), "--needle".into(), if needle.is_empty() { "-".into() } else { hex(needle) }],
                detail: json!({"class": "panic", "needle": hex(needle)}),
            }),
        }
    });
    total.merge(rep);
    // the model with conversions as actions (deduplicated closure)
    let mut cases = build_cases(false, "pf", 3000);
    cases.extend(build_cases(false, "pad", 3000));
    let n = cases.len();
    let (unique, generated, depth_m) = explore(SubModel::new(cases, true), total, exhaustive);
    total.sample(2, || json!({"needle": show(&needles[needles.len() / 2]), "haystack_set": finder_haystacks(&needles[needles.len() / 2]).iter().map(|h| h.len()).collect::<Vec<_>>(), "histories": format!("all {}-step search sequences over the set, on each of original/clone/as_ref/into_owned", depth)}));
    bounds.insert("finder-histories".into(), json!({"needles": needles.len(), "haystacks_per_needle": "9..=15 (incl. three of equal length with different occurrence sets)", "placements": ["each haystack in its own allocation", "all haystacks copied into ONE buffer (same address, equal lengths: same address and length, different content)"], "depth": depth, "forms": ["original", "clone", "as_ref", "into_owned (source buffer overwritten and freed)", "as_ref of owned"]}));
    bounds.insert("iterator-conversion-model".into(), json!({"actions": "Next, Clone, IntoOwned", "init_states": n, "unique_states": unique, "generated_states": generated, "max_depth": depth_m}));
}

pub fn replay(args: &Args) {
    let rev = args.num("rev", 0) == 1;
    let source = match args.str("source", "Top").as_str() {
        "Finder" => Source::Finder,
        "FinderNoPre" => Source::FinderNoPre,
        _ => Source::Top,
    };
    let n = args.str("needle", "-");
    let needle = leak_bytes(&if n == "-" { vec![] } else { unhex(&n) });
    let h = args.str("hay", "-");
    let hay = leak_bytes(&if h == "-" { vec![] } else { unhex(&h) });
    let acts = args.str("actions", "-");
    let mut verdicts = vec![];
    for _ in 0..2 {
        let reference = if rev { oracle::rfind_all(hay, needle) } else { oracle::find_all(hay, needle) };
        let model = SubModel::new(vec![Case { rev, source, needle, hay, reference, family: "replay" }], true);
        let r = guarded(|| {
            let mut st = model.init_state(0);
            for c in acts.chars() {
                if st.bad.is_some() {
                    break;
                }
                let a = match c {
                    'N' => Act::Next,
                    'C' => Act::Clone,
                    'O' => Act::IntoOwned,
                    _ => continue,
                };
                st = model.step(&st, a);
            }
            st.bad.as_ref().map(|b| b.to_string())
        });
        verdicts.push(match r {
            Ok(v) => v,
            Err(p) => Some(format!("panicked: {}", p)),
        });
    }
    assert_eq!(verdicts[0], verdicts[1], "replay is not deterministic");
    match &verdicts[0] {
        Some(w) => {
            println!("REPLAY-VIOLATION {}", w);
            std::process::exit(1)
        }
        None => {
            println!("REPLAY-OK no violation on this history");
            std::process::exit(0)
        }
    }
}

pub fn replay_finder(args: &Args) {
    let n = args.str("needle", "-");
    let needle = if n == "-" { vec![] } else { unhex(&n) };
    let mut counts = vec![];
    let mut last = Report::default();
    for _ in 0..2 {
        let mut r = Report::default();
        explore_finder(&needle, 3, &mut r);
        counts.push(r.violation_count);
        last = r;
    }
    assert_eq!(counts[0], counts[1], "replay is not deterministic");
    for v in &last.violations {
        println!("REPLAY-VIOLATION {}", v.what);
    }
    if last.violation_count == 0 {
        println!("REPLAY-OK");
    }
    std::process::exit(if last.violation_count > 0 { 1 } else { 0 });
}
