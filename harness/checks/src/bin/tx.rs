//! Configuration transcript (C09): one deterministic list of cases through
//! the crate's *top-level* API only, so that the same source builds against
//! every configuration of the crate (features, compile-time target features,
//! dispatcher outcomes, emulated architectures). Every answer is compared
//! with the naive reference in-process, and an order-independent digest of
//! all answers is emitted so that the driver can also require the transcripts
//! of all configurations to be identical.

use mcore::{arena::Arena, enumr, guarded, hex, oracle, par, Args, Report, Violation};
use serde_json::json;

#[path = "ss/spaces.rs"]
#[allow(dead_code)]
mod spaces;

/// (sse2, avx2, neon, simd128) as reported by the crate's public
/// is_available() functions in this build.
fn availability() -> (Option<bool>, Option<bool>, Option<bool>, Option<bool>) {
    #[allow(unused_mut)]
    let (mut sse2, mut avx2, mut neon, mut simd) = (None, None, None, None);
    #[cfg(feature = "x86")]
    {
        sse2 = Some(memchr::arch::x86_64::sse2::memchr::One::is_available());
        avx2 = Some(memchr::arch::x86_64::avx2::memchr::One::is_available());
        // the packed-pair finders must agree with the memchr searchers
        assert_eq!(sse2, Some(memchr::arch::x86_64::sse2::packedpair::Finder::is_available()));
        assert_eq!(avx2, Some(memchr::arch::x86_64::avx2::packedpair::Finder::is_available()));
    }
    #[cfg(feature = "aarch64")]
    {
        neon = Some(memchr::arch::aarch64::neon::memchr::One::is_available());
    }
    #[cfg(feature = "simd128")]
    {
        simd = Some(memchr::arch::wasm32::simd128::memchr::One::is_available());
    }
    (sse2, avx2, neon, simd)
}

fn mix(h: u64, v: u64) -> u64 {
    let mut x = h ^ v.wrapping_mul(0x9e3779b97f4a7c15);
    x ^= x >> 29;
    x = x.wrapping_mul(0xbf58476d1ce4e5b9);
    x ^= x >> 32;
    x
}

const RUNAWAY: u64 = 0xDEAD_0000_DEAD_0000;

fn capped(it: impl Iterator<Item = usize>, cap: usize, mut h: u64) -> u64 {
    let mut n = 0;
    for p in it {
        n += 1;
        if n > cap {
            return mix(h, RUNAWAY);
        }
        h = mix(h, p as u64);
    }
    h
}

fn enc(o: Option<usize>) -> u64 {
    match o {
        None => u64::MAX,
        Some(i) => i as u64,
    }
}

struct Acc {
    digest: u64,
}

impl Acc {
    /// Order-independent: every case contributes mix(case id, answers) by XOR.
    fn add(&mut self, case: u64, answers: &[u64]) {
        let mut h = case;
        for &a in answers {
            h = mix(h, a);
        }
        self.digest ^= h;
    }
}

fn viol(r: &mut Report, key: u64, what: String, detail: serde_json::Value) {
    r.violation(Violation { class: "wrong_result".into(), key, what: format!("[wrong_result] {}", what), replay_argv: vec![], detail });
}

/// memchr family on one placed haystack.
fn bytes_case(r: &mut Report, acc: &mut Acc, case: u64, hay: &[u8], nd: [u8; 3]) {
    let res = guarded(|| {
        let mut v: Vec<u64> = vec![
            enc(memchr::memchr(nd[0], hay)),
            enc(memchr::memrchr(nd[0], hay)),
            enc(memchr::memchr2(nd[0], nd[1], hay)),
            enc(memchr::memrchr2(nd[0], nd[1], hay)),
            enc(memchr::memchr3(nd[0], nd[1], nd[2], hay)),
            enc(memchr::memrchr3(nd[0], nd[1], nd[2], hay)),
            memchr::memchr_iter(nd[0], hay).count() as u64,
        ];
        // iterators: forward, reverse, alternating from both ends
        let mut h = 0u64;
        // an iterator over an n-byte haystack yields at most n positions:
        // anything more is a runaway (it would never end) and is recorded
        // as a value no reference produces
        let cap = hay.len() + 2;
        h = capped(memchr::memchr_iter(nd[0], hay), cap, h);
        h = capped(memchr::memrchr2_iter(nd[0], nd[1], hay), cap, h);
        let mut it = memchr::memchr3_iter(nd[0], nd[1], nd[2], hay);
        let mut rounds = 0;
        loop {
            let a = it.next();
            let b = it.next_back();
            h = mix(mix(h, enc(a)), enc(b));
            rounds += 1;
            if a.is_none() && b.is_none() {
                break;
            }
            if rounds > cap {
                h = mix(h, RUNAWAY);
                break;
            }
        }
        v.push(h);
        v
    });
    r.evaluations += 10;
    r.states += 1;
    match res {
        Err(msg) => r.violation(Violation {
            class: "panic".into(),
            key: hay.len() as u64,
            what: format!("[panic] memchr family on haystack {} panicked: {}", hex(hay), msg),
            replay_argv: vec![],
            detail: json!({"class": "panic", "haystack": hex(hay)}),
        }),
        Ok(v) => {
            let p1 = |b: u8| b == nd[0];
            let p2 = |b: u8| b == nd[0] || b == nd[1];
            let p3 = |b: u8| b == nd[0] || b == nd[1] || b == nd[2];
            let exp = [
                enc(oracle::find_byte(hay, p1)),
                enc(oracle::rfind_byte(hay, p1)),
                enc(oracle::find_byte(hay, p2)),
                enc(oracle::rfind_byte(hay, p2)),
                enc(oracle::find_byte(hay, p3)),
                enc(oracle::rfind_byte(hay, p3)),
                oracle::count_byte(hay, p1) as u64,
            ];
            let mut h = 0u64;
            for p in oracle::positions(hay, p1) {
                h = mix(h, p as u64);
            }
            for p in oracle::positions(hay, p2).into_iter().rev() {
                h = mix(h, p as u64);
            }
            let pos3 = oracle::positions(hay, p3);
            let (mut f, mut b) = (0usize, pos3.len());
            loop {
                let a = if f < b {
                    f += 1;
                    Some(pos3[f - 1])
                } else {
                    None
                };
                let c = if f < b {
                    b -= 1;
                    Some(pos3[b])
                } else {
                    None
                };
                h = mix(mix(h, enc(a)), enc(c));
                if a.is_none() && c.is_none() {
                    break;
                }
            }
            let names = ["memchr", "memrchr", "memchr2", "memrchr2", "memchr3", "memrchr3", "memchr_iter().count()"];
            for i in 0..7 {
                if v[i] != exp[i] {
                    viol(r, hay.len() as u64, format!("{} on haystack {} (len {}) with needles {}: returned {}, reference {}", names[i], hex(hay), hay.len(), hex(&nd), v[i] as i64, exp[i] as i64), json!({"class": "wrong_result", "fn": names[i], "haystack": hex(hay), "needles": hex(&nd)}));
                }
            }
            if v[7] != h {
                viol(r, hay.len() as u64, format!("iterator sequences on haystack {} (len {}) differ from the reference", hex(hay), hay.len()), json!({"class": "wrong_result", "fn": "iterators", "haystack": hex(hay)}));
            }
            if hay.len() >= 16 {
                r.nontrivial += 1;
            }
            acc.add(case, &v);
        }
    }
}

/// memmem family on one (needle, haystack).
fn sub_case(r: &mut Report, acc: &mut Acc, case: u64, needle: &[u8], hay: &[u8]) {
    use memchr::memmem;
    let res = guarded(|| {
        let mut v: Vec<u64> = vec![
            enc(memmem::find(hay, needle)),
            enc(memmem::rfind(hay, needle)),
            enc(memmem::Finder::new(needle).find(hay)),
            enc(memmem::FinderRev::new(needle).rfind(hay)),
            enc(memmem::FinderBuilder::new().prefilter(memmem::Prefilter::None).build_forward(needle).find(hay)),
        ];
        v.push(capped(memmem::find_iter(hay, needle), hay.len() + 2, 0));
        v.push(capped(memmem::rfind_iter(hay, needle), hay.len() + 2, 0));
        v
    });
    r.evaluations += 7;
    r.states += 1;
    match res {
        Err(msg) => r.violation(Violation {
            class: "panic".into(),
            key: hay.len() as u64,
            what: format!("[panic] memmem family needle={} haystack={} panicked: {}", hex(needle), hex(hay), msg),
            replay_argv: vec![],
            detail: json!({"class": "panic", "needle": hex(needle), "haystack": hex(hay)}),
        }),
        Ok(v) => {
            let f = enc(oracle::find_sub(hay, needle));
            let b = enc(oracle::rfind_sub(hay, needle));
            let mut hf = 0u64;
            for p in oracle::find_all(hay, needle) {
                hf = mix(hf, p as u64);
            }
            let mut hb = 0u64;
            for p in oracle::rfind_all(hay, needle) {
                hb = mix(hb, p as u64);
            }
            let exp = [f, b, f, b, f, hf, hb];
            let names = ["memmem::find", "memmem::rfind", "Finder::find", "FinderRev::rfind", "Finder(no prefilter)::find", "find_iter sequence", "rfind_iter sequence"];
            for i in 0..7 {
                if v[i] != exp[i] {
                    viol(r, ((needle.len() as u64) << 32) | hay.len() as u64, format!("{} needle={} haystack={} (len {}): returned {}, reference {}", names[i], hex(needle), if hay.len() <= 64 { hex(hay) } else { format!("{}..", hex(&hay[..32])) }, hay.len(), v[i] as i64, exp[i] as i64), json!({"class": "wrong_result", "fn": names[i], "needle": hex(needle), "haystack": hex(hay)}));
                }
            }
            if oracle::find_sub(hay, needle).map(|p| p > 0).unwrap_or(hay.len() >= needle.len()) {
                r.nontrivial += 1;
            }
            acc.add(case, &v);
        }
    }
}

fn main() {
    mcore::run_main(real_main);
}

fn real_main() {
    let args = Args::parse();
    let out = args.str("out", "-");
    let thorough = args.str("tier", "quick") == "thorough";
    let t0 = std::time::Instant::now();
    let mut total = Report::default();
    let avail = availability();
    // The configuration must be what the driver thinks it is: a build that
    // silently ran another backend is a machinery error, not a pass.
    let expect = args.str("expect", "");
    let have = format!(
        "sse2={},avx2={},neon={},simd128={}",
        avail.0.map(|b| b.to_string()).unwrap_or("-".into()),
        avail.1.map(|b| b.to_string()).unwrap_or("-".into()),
        avail.2.map(|b| b.to_string()).unwrap_or("-".into()),
        avail.3.map(|b| b.to_string()).unwrap_or("-".into())
    );
    if !expect.is_empty() && expect != have {
        total.machinery_errors.push(format!("configuration mismatch: expected {} but the crate reports {}", expect, have));
    }
    let digest = std::sync::atomic::AtomicU64::new(0);
    let nd = [0x00u8, 0x80, 0xff];
    // ---- bytes: Full binary strings with roles cycling over the needles
    let lfull = args.num("lfull", if thorough { 13 } else { 11 }) as usize;
    for len in 0..=lfull {
        let n = enumr::pow(2, len as u32);
        let rep = par::run_chunks(n, 1024, |lo, hi, r| {
            let mut ar = Arena::plain(2);
            let mut acc = Acc { digest: 0 };
            let mut data = vec![0u8; len];
            enumr::for_strings(2, len, lo, hi, |idx, bits| {
                for i in 0..len {
                    data[i] = if bits[i] == 1 { nd[i % 3] } else { 0x01 };
                }
                for a in [0usize, 1, 7, 15] {
                    let hay = ar.place_fill(512 + a, &data, nd[0], nd[0], 64);
                    bytes_case(r, &mut acc, ((len as u64) << 40) | (idx << 8) | a as u64, hay, nd);
                }
            });
            digest.fetch_xor(acc.digest, std::sync::atomic::Ordering::Relaxed);
        });
        total.merge(rep);
    }
    // ---- bytes: duplicate and extreme needle values
    for (vi, ndv) in [[b'a', b'a', b'b'], [b'a', b'b', b'a'], [b'b', b'a', b'a'], [b'a', b'a', b'a'], [0xff, 0x7f, 0x00], [0x80, 0x80, 0x7f]].iter().enumerate() {
        for len in 0..=8usize {
            let n = enumr::pow(3, len as u32);
            let rep = par::run_chunks(n, 2048, |lo, hi, r| {
                let mut ar = Arena::plain(2);
                let mut acc = Acc { digest: 0 };
                let mut data = vec![0u8; len];
                enumr::for_strings(3, len, lo, hi, |idx, roles| {
                    for i in 0..len {
                        // role 0: a byte that is none of the needles; 1, 2: the first / last needle
                        data[i] = match roles[i] {
                            0 => ndv[0] ^ 0x15,
                            1 => ndv[0],
                            _ => ndv[2],
                        };
                    }
                    let hay = ar.place_fill(512 + (idx as usize % 4), &data, ndv[0], ndv[0], 64);
                    bytes_case(r, &mut acc, (7 << 60) | ((vi as u64) << 50) | ((len as u64) << 40) | idx, hay, *ndv);
                });
                digest.fetch_xor(acc.digest, std::sync::atomic::Ordering::Relaxed);
            });
            total.merge(rep);
        }
    }
    // ---- bytes: sparse at real vector widths, every start offset mod 64
    let lmax = args.num("lsparse", if thorough { 320 } else { 200 }) as usize;
    let lens: Vec<usize> = (0..=lmax).collect();
    let rep = par::run_items(&lens, |_, &len, r| {
        let mut ar = Arena::plain(2);
        let mut acc = Acc { digest: 0 };
        let mut data = vec![0x01u8; len];
        let step = if thorough { 1 } else { 3 };
        for pos in (0..=len).step_by(step) {
            // pos == len: no match
            for b in data.iter_mut() {
                *b = 0x01;
            }
            if pos < len {
                data[pos] = nd[pos % 3];
            }
            for a in (0..64).step_by(if thorough { 1 } else { 5 }) {
                let hay = ar.place_fill(512 + a, &data, nd[0], nd[0], 64);
                bytes_case(r, &mut acc, (1 << 60) | ((len as u64) << 40) | ((pos as u64) << 8) | a as u64, hay, nd);
            }
        }
        // dense
        for (i, b) in data.iter_mut().enumerate() {
            *b = nd[i % 3];
        }
        let hay = ar.place_fill(512 + len % 64, &data, nd[0], nd[0], 64);
        bytes_case(r, &mut acc, (2 << 60) | (len as u64) << 8, hay, nd);
        digest.fetch_xor(acc.digest, std::sync::atomic::Ordering::Relaxed);
    });
    total.merge(rep);
    // ---- substrings: E2
    let nmax = args.num("nmax", if thorough { 6 } else { 4 }) as usize;
    let hmax = args.num("hmax", if thorough { 15 } else { 11 }) as usize;
    let needles = spaces::AllStrings { letters: b"ab".to_vec(), minlen: 0, maxlen: nmax }.all();
    let hays = spaces::AllStrings { letters: b"ab".to_vec(), minlen: 0, maxlen: hmax };
    let ht = hays.total();
    let chunk = 1024u64;
    let nchunks = (ht + chunk - 1) / chunk;
    let rep = par::run_chunks(needles.len() as u64 * nchunks, 1, |lo, hi, r| {
        let mut acc = Acc { digest: 0 };
        for it in lo..hi {
            let ni = it / nchunks;
            let needle = &needles[ni as usize];
            let c = it % nchunks;
            hays.for_range(c * chunk, ((c + 1) * chunk).min(ht), |idx, h| {
                sub_case(r, &mut acc, (3 << 60) | (ni << 32) | idx, needle, h);
            });
        }
        digest.fetch_xor(acc.digest, std::sync::atomic::Ordering::Relaxed);
    });
    total.merge(rep);
    // ---- substrings: padded cores (vector searchers / their fallbacks)
    let pneedles = spaces::AllStrings { letters: b"ab".to_vec(), minlen: 1, maxlen: 3 }.all();
    let cores = spaces::AllStrings { letters: b"ab".to_vec(), minlen: 0, maxlen: if thorough { 7 } else { 5 } }.all();
    let rep = par::run_items(&pneedles, |ni, needle, r| {
        let mut acc = Acc { digest: 0 };
        let mut buf: Vec<u8> = vec![];
        for (ci, core) in cores.iter().enumerate() {
            for (fi, &fill) in [b'z', b'a'].iter().enumerate() {
                for &pl in &[0usize, 1, 15, 16, 17, 33] {
                    for &pr in &[0usize, 1, 15, 16, 17, 33, 64] {
                        buf.clear();
                        buf.extend(std::iter::repeat(fill).take(pl));
                        buf.extend_from_slice(core);
                        buf.extend(std::iter::repeat(fill).take(pr));
                        sub_case(r, &mut acc, (4 << 60) | ((ni as u64) << 48) | ((ci as u64) << 24) | ((fi as u64) << 20) | ((pl as u64) << 10) | pr as u64, needle, &buf);
                    }
                }
            }
        }
        digest.fetch_xor(acc.digest, std::sync::atomic::Ordering::Relaxed);
    });
    total.merge(rep);
    // ---- substrings: long structured needles x factor haystacks
    let lnn = spaces::ln_needles(if thorough { &[33, 40, 65, 100] } else { &[33, 65] }, 2);
    let rep = par::run_items(&lnn, |ni, needle, r| {
        let mut acc = Acc { digest: 0 };
        for (hi, h) in spaces::factor_haystacks(needle, None, if thorough { 2 } else { 1 }, 12, 4 * needle.len() + 64).iter().enumerate() {
            sub_case(r, &mut acc, (5 << 60) | ((ni as u64) << 32) | hi as u64, needle, h);
        }
        // prefilter histories (needles with rare bytes only)
        if needle.contains(&b'z') {
            if let Some(p) = memchr::arch::all::packedpair::Pair::new(needle) {
                for (hi, h) in spaces::pf_haystacks(needle, p.index1() as usize, p.index2() as usize, false).iter().enumerate().step_by(7) {
                    sub_case(r, &mut acc, (6 << 60) | ((ni as u64) << 32) | hi as u64, needle, h);
                }
            }
        }
        digest.fetch_xor(acc.digest, std::sync::atomic::Ordering::Relaxed);
    });
    total.merge(rep);
    // ---- substrings: the (needle length x haystack length) grid, one
    // occurrence at every position (backends differ in their length
    // thresholds, so every pair of lengths is a potential disagreement)
    let gn = args.num("gridn", if thorough { 140 } else { 72 }) as usize;
    let gh = args.num("gridh", if thorough { 600 } else { 272 }) as usize;
    let glens: Vec<usize> = (0..=gn).collect();
    let rep = par::run_items(&glens, |_, &m, r| {
        let mut acc = Acc { digest: 0 };
        let mut h: Vec<u8> = vec![];
        for kind in 0..2u64 {
            if m == 0 && kind == 1 {
                continue;
            }
            let needle: Vec<u8> = if kind == 0 { (0..m).map(|i| 33 + (i % 94) as u8).collect() } else { b"ab".iter().copied().cycle().take(m).collect() };
            for len in 0..=gh {
                h.clear();
                h.resize(len, b'.');
                sub_case(r, &mut acc, (7 << 60) | (kind << 56) | ((m as u64) << 40) | ((len as u64) << 20) | 0xfffff, &needle, &h);
                if m == 0 || len < m {
                    continue;
                }
                for p in 0..=len - m {
                    h.clear();
                    h.resize(len, b'.');
                    h[p..p + m].copy_from_slice(&needle);
                    sub_case(r, &mut acc, (7 << 60) | (kind << 56) | ((m as u64) << 40) | ((len as u64) << 20) | p as u64, &needle, &h);
                }
            }
        }
        digest.fetch_xor(acc.digest, std::sync::atomic::Ordering::Relaxed);
    });
    total.merge(rep);
    let d = digest.load(std::sync::atomic::Ordering::Relaxed);
    total.sample(0, || json!({"transcript": "memchr/2/3, memrchr/2/3, count, iterators (fwd, rev, double-ended); memmem find/rfind, Finder, FinderRev, no-prefilter finder, find_iter/rfind_iter sequences", "availability": have, "digest": format!("{:016x}", d)}));
    let extra = json!({
        "engine": "tx", "tier": if thorough { "thorough" } else { "quick" },
        "availability": have, "digest": format!("{:016x}", d),
        "bounds": {"bytes_full_len": lfull, "bytes_sparse_len": lmax, "E2": {"needle": nmax, "haystack": hmax}, "LN_needles": lnn.len(), "grid": {"needle_len": [0, gn], "haystack_len": [0, gh], "occurrence": "none / one at every position"}},
        "nontrivial_rule": "byte cases: haystack of at least 16 bytes; substring cases: first occurrence beyond offset 0 or no occurrence in a haystack at least as long as the needle",
        "exhaustive": true,
        "wall_s": t0.elapsed().as_secs_f64(),
    });
    total.write(&out, "tx", extra);
    eprintln!("tx[{}]: {} cases, {} calls, digest {:016x}, {} violations, {:.1}s", have, total.states, total.evaluations, d, total.violation_count, t0.elapsed().as_secs_f64());
}
