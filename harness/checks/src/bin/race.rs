//! Free-running complement of the loom exploration (C15).
//!
//! loom switches threads at synchronisation operations only; an access to
//! shared state that is NOT synchronised (a `static mut` scratch buffer, a
//! cache behind `unsafe impl Sync`, a plain field written through a shared
//! reference) has no scheduling point and is invisible to it. This harness
//! runs the same kind of bodies - every dispatched routine on short, medium
//! and long haystacks, the substring free functions with different needles,
//! one Finder / FinderRev shared by all threads - on REAL threads, and the
//! driver runs it under `valgrind --tool=helgrind`: a reported race with a
//! frame inside the crate is a violation, and so is any answer that differs
//! from the naive reference.
//!
//! With `--cold` nothing is warmed: every thread's first constructions and
//! calls happen concurrently in a fresh process (answers only; this mode is
//! not run under helgrind).
//!
//! Otherwise the seven dispatch cells are warmed on the main thread first: their racy
//! first calls are what loom explores exhaustively, and a Relaxed store is a
//! plain `mov` that a lock-set detector cannot tell from a data race.

use memchr::memmem;
use std::sync::atomic::{AtomicU64, Ordering};

fn naive_find(h: &[u8], n: &[u8]) -> Option<usize> {
    if n.is_empty() {
        return Some(0);
    }
    h.windows(n.len()).position(|w| w == n)
}

fn naive_rfind(h: &[u8], n: &[u8]) -> Option<usize> {
    if n.is_empty() {
        return Some(h.len());
    }
    h.windows(n.len()).rposition(|w| w == n)
}

fn naive_count(h: &[u8], n: &[u8]) -> usize {
    let mut c = 0;
    let mut at = 0;
    if n.is_empty() {
        return h.len() + 1;
    }
    while at + n.len() <= h.len() {
        if &h[at..at + n.len()] == n {
            c += 1;
            at += n.len();
        } else {
            at += 1;
        }
    }
    c
}

static MISMATCHES: AtomicU64 = AtomicU64::new(0);
static CALLS: AtomicU64 = AtomicU64::new(0);

fn check<T: PartialEq + std::fmt::Debug>(what: &str, t: usize, got: T, exp: T) {
    CALLS.fetch_add(1, Ordering::Relaxed);
    if got != exp {
        if MISMATCHES.fetch_add(1, Ordering::Relaxed) < 5 {
            eprintln!("RACE-MISMATCH thread {}: {} returned {:?}, reference {:?}", t, what, got, exp);
        }
    }
}

fn needles() -> Vec<Vec<u8>> {
    let mut v: Vec<Vec<u8>> = vec![b"".to_vec(), b"a".to_vec(), b"zq".to_vec(), b"abcab".to_vec(), b"a\x9e".to_vec()];
    v.push(b"0123456789abcdef".to_vec());
    let mut rare = vec![b'e'; 33];
    rare[0] = b'z';
    rare[32] = b'q';
    v.push(rare);
    v.push(b"ab".iter().copied().cycle().take(40).collect());
    let mut lp: Vec<u8> = b"azeeeeeeeejeeeeeeeeeeeeeeeeeqe".to_vec();
    let head = lp[..10].to_vec();
    lp.extend(head);
    v.push(lp);
    v.push((0..70u8).map(|i| i.wrapping_mul(37).wrapping_add(11)).collect());
    v
}

static GATE: AtomicU64 = AtomicU64::new(0);
static STAGE: [AtomicU64; 7] = [AtomicU64::new(0), AtomicU64::new(0), AtomicU64::new(0), AtomicU64::new(0), AtomicU64::new(0), AtomicU64::new(0), AtomicU64::new(0)];

/// Cold mode, before anything else in the process has used the crate: the
/// seven dispatched routines in the order `first, first+1, ..` (mod 7), each
/// behind its own spin barrier, so that for EVERY routine all threads make
/// the process's first call to it at the same moment - on a haystack with
/// several matches whose first, last and count differ (a stand-in routine
/// that a racy installation protocol runs meanwhile - wrong direction, wrong
/// needle count, a scalar loop with a different bound - shows as a wrong
/// answer). (After seeded change RZH; the loom exploration is the exhaustive
/// part, this is its free-running complement on the real build.)
fn first_call_sweep(t: usize, threads: usize, first: usize) {
    let (n1, n2, n3) = (b'a' + t as u8, b'm' + t as u8, b'x');
    let len = 90 + 37 * t;
    let mut h = vec![b'.'; len];
    for (i, b) in h.iter_mut().enumerate() {
        if i % 31 == 5 + t {
            *b = n1;
        } else if i % 37 == 11 {
            *b = n2;
        } else if i % 41 == 17 {
            *b = n3;
        }
    }
    for k in 0..7 {
        let r = (first + k) % 7;
        STAGE[k].fetch_add(1, Ordering::SeqCst);
        while STAGE[k].load(Ordering::SeqCst) < threads as u64 {
            std::hint::spin_loop();
        }
        match r {
            0 => check("first memchr", t, memchr::memchr(n1, &h), h.iter().position(|&b| b == n1)),
            1 => check("first memrchr", t, memchr::memrchr(n1, &h), h.iter().rposition(|&b| b == n1)),
            2 => check("first memchr2", t, memchr::memchr2(n2, n1, &h), h.iter().position(|&b| b == n1 || b == n2)),
            3 => check("first memrchr2", t, memchr::memrchr2(n2, n1, &h), h.iter().rposition(|&b| b == n1 || b == n2)),
            4 => check("first memchr3", t, memchr::memchr3(n3, n2, n1, &h), h.iter().position(|&b| b == n1 || b == n2 || b == n3)),
            5 => check("first memrchr3", t, memchr::memrchr3(n3, n2, n1, &h), h.iter().rposition(|&b| b == n1 || b == n2 || b == n3)),
            _ => check("first count", t, memchr::memchr_iter(n1, &h).count(), h.iter().filter(|&&b| b == n1).count()),
        }
    }
}

fn worker(t: usize, rounds: usize, threads: usize, first: usize, shared: Option<&[(memmem::Finder<'_>, memmem::FinderRev<'_>, Vec<u8>)]>) {
    let ns = needles();
    // cold mode: nothing in the process has used the crate yet; all threads
    // leave the gate together and make their FIRST constructions and calls
    // concurrently (lazily initialised state anywhere in the crate is
    // published under contention)
    let own: Vec<(memmem::Finder<'_>, memmem::FinderRev<'_>, Vec<u8>)>;
    let shared = match shared {
        Some(s) => s,
        None => {
            if first < 7 {
                first_call_sweep(t, threads, first);
            }
            GATE.fetch_add(1, Ordering::SeqCst);
            while GATE.load(Ordering::SeqCst) < threads as u64 {
                std::hint::spin_loop();
            }
            // longest needle first: the very first construction after the
            // gate is the one that touches the most lazily built state
            let mut o: Vec<(memmem::Finder<'_>, memmem::FinderRev<'_>, Vec<u8>)> =
                ns.iter().rev().map(|n| (memmem::Finder::new(n), memmem::FinderRev::new(n), n.clone())).collect();
            o.reverse();
            own = o;
            &own
        }
    };
    for round in 0..rounds {
        // byte searches: thread-specific needles and match positions
        let (n1, n2, n3) = (b'a' + t as u8, b'm' + t as u8, b'x');
        for len in [0usize, 1, 7, 15, 16, 17, 31, 32, 33, 63, 64, 65, 100, 300] {
            let mut h = vec![b'.'; len];
            for (i, b) in h.iter_mut().enumerate() {
                if (i + t + round) % 11 == 3 {
                    *b = n1;
                } else if (i + 2 * t) % 23 == 7 {
                    *b = n2;
                } else if i % 29 == 28 {
                    *b = n3;
                }
            }
            check("memchr", t, memchr::memchr(n1, &h), h.iter().position(|&b| b == n1));
            check("memrchr", t, memchr::memrchr(n1, &h), h.iter().rposition(|&b| b == n1));
            check("memchr2", t, memchr::memchr2(n1, n2, &h), h.iter().position(|&b| b == n1 || b == n2));
            check("memrchr2", t, memchr::memrchr2(n1, n2, &h), h.iter().rposition(|&b| b == n1 || b == n2));
            check("memchr3", t, memchr::memchr3(n1, n2, n3, &h), h.iter().position(|&b| b == n1 || b == n2 || b == n3));
            check("memrchr3", t, memchr::memrchr3(n1, n2, n3, &h), h.iter().rposition(|&b| b == n1 || b == n2 || b == n3));
            check("memchr_iter.count", t, memchr::memchr_iter(n1, &h).count(), h.iter().filter(|&&b| b == n1).count());
            check(
                "memchr2_iter.rev",
                t,
                memchr::memchr2_iter(n1, n2, &h).rev().collect::<Vec<_>>(),
                (0..len).rev().filter(|&i| h[i] == n1 || h[i] == n2).collect::<Vec<_>>(),
            );
            check("is_equal", t, memchr::arch::all::is_equal(&h, &h.clone()), true);
            check("is_prefix", t, memchr::arch::all::is_prefix(&h, &h[..len / 2]), true);
            check("is_suffix", t, memchr::arch::all::is_suffix(&h, &h[len / 2..]), true);
        }
        // substring searches: every needle, haystacks on every route
        for (ni, n) in ns.iter().enumerate() {
            for len in [0usize, 5, 15, 17, 20, 47, 63, 64, 100, 300] {
                for with in [false, true] {
                    let mut h: Vec<u8> = (0..len).map(|i| if (i + t) % 7 == 0 { b'.' } else { b',' }).collect();
                    if with && n.len() <= len {
                        let at = (len - n.len()) * (t % 4 + 1) / 4;
                        h[at..at + n.len()].copy_from_slice(n);
                        if len >= 2 * n.len() + at + 1 && !n.is_empty() {
                            let l = h.len();
                            h[l - n.len()..].copy_from_slice(n);
                        }
                    }
                    check("memmem::find", t, memmem::find(&h, n), naive_find(&h, n));
                    check("memmem::rfind", t, memmem::rfind(&h, n), naive_rfind(&h, n));
                    check("find_iter.count", t, memmem::find_iter(&h, n).count(), naive_count(&h, n));
                    check("rfind_iter.count", t, memmem::rfind_iter(&h, n).count(), naive_count_rev(&h, n));
                    check("Finder::new.find", t, memmem::Finder::new(n).find(&h), naive_find(&h, n));
                    let (f, fr, sn) = &shared[ni];
                    debug_assert_eq!(sn, n);
                    check("shared Finder::find", t, f.find(&h), naive_find(&h, n));
                    check("shared FinderRev::rfind", t, fr.rfind(&h), naive_rfind(&h, n));
                    check("shared Finder::find_iter.count", t, f.find_iter(&h).count(), naive_count(&h, n));
                }
            }
            check(
                "Pair::new",
                t,
                memchr::arch::all::packedpair::Pair::new(n).is_some(),
                n.len() >= 2,
            );
        }
    }
}

fn naive_count_rev(h: &[u8], n: &[u8]) -> usize {
    if n.is_empty() {
        return h.len() + 1;
    }
    let mut c = 0;
    let mut end = h.len();
    while end >= n.len() {
        if &h[end - n.len()..end] == n {
            c += 1;
            end -= n.len();
        } else {
            end -= 1;
        }
    }
    c
}

fn main() {
    let a: Vec<String> = std::env::args().collect();
    let get = |k: &str, d: usize| a.iter().position(|x| x == k).and_then(|i| a.get(i + 1)).and_then(|v| v.parse().ok()).unwrap_or(d);
    let threads = get("--threads", 3);
    let rounds = get("--rounds", 2);
    // cold mode: which dispatched routine gets the process's first call
    // (7 = no first-call sweep: the first calls are finder constructions)
    let first = get("--first", 7);
    if a.iter().any(|x| x == "--cold") {
        std::thread::scope(|s| {
            for t in 0..threads {
                s.spawn(move || worker(t, rounds, threads, first, None));
            }
        });
        let m = MISMATCHES.load(Ordering::Relaxed);
        println!("RACE-HARNESS threads={} rounds={} calls={} mismatches={}", threads, rounds, CALLS.load(Ordering::Relaxed), m);
        std::process::exit(if m > 0 { 3 } else { 0 });
    }
    // warm the dispatch cells (see the module comment)
    let w = b"warm up the seven dispatch cells";
    let _ = memchr::memchr(b'x', w);
    let _ = memchr::memrchr(b'x', w);
    let _ = memchr::memchr2(b'x', b'y', w);
    let _ = memchr::memrchr2(b'x', b'y', w);
    let _ = memchr::memchr3(b'x', b'y', b'z', w);
    let _ = memchr::memrchr3(b'x', b'y', b'z', w);
    let _ = memchr::memchr_iter(b'x', w).count();
    let ns = needles();
    let shared: Vec<(memmem::Finder<'_>, memmem::FinderRev<'_>, Vec<u8>)> =
        ns.iter().map(|n| (memmem::Finder::new(n), memmem::FinderRev::new(n), n.clone())).collect();
    std::thread::scope(|s| {
        for t in 0..threads {
            let shared = &shared;
            s.spawn(move || worker(t, rounds, threads, 7, Some(shared)));
        }
    });
    let m = MISMATCHES.load(Ordering::Relaxed);
    println!("RACE-HARNESS threads={} rounds={} calls={} mismatches={}", threads, rounds, CALLS.load(Ordering::Relaxed), m);
    std::process::exit(if m > 0 { 3 } else { 0 });
}
