//! Emulated vendor intrinsics (verification only; appended to an
//! arch-rewritten scratch copy of the crate so that the aarch64/NEON and
//! wasm32/simd128 modules compile and run on the x86_64 host).
//!
//! Semantics are written from the Arm ARM (DUP, LD1, CMEQ, AND, ORR, SHRN,
//! UMAXP, UMOV) and the WebAssembly SIMD proposal (v128.load, i8x16.splat,
//! i8x16.eq, v128.and, v128.or, i8x16.bitmask), for a little-endian target.
//! Intrinsics that take a const-generic immediate in `core::arch` take it as
//! an ordinary argument here, so the legacy call form `f(x, 4)` used by the
//! crate still type-checks and a changed immediate is modelled.
//! Every emulated load reports to the crate's load monitor.

#[inline(always)]
fn monitor(p: *const u8, n: usize) {
    #[cfg(all(memchr_verif, feature = "std"))]
    crate::verif::check_load(p, n, false);
    let _ = (p, n);
}

pub mod aarch64 {
    #[derive(Clone, Copy, Debug)]
    pub struct uint8x16_t(pub [u8; 16]);
    #[derive(Clone, Copy, Debug)]
    pub struct uint16x8_t(pub [u16; 8]);
    #[derive(Clone, Copy, Debug)]
    pub struct uint8x8_t(pub [u8; 8]);
    #[derive(Clone, Copy, Debug)]
    pub struct uint64x1_t(pub u64);
    #[derive(Clone, Copy, Debug)]
    pub struct uint64x2_t(pub [u64; 2]);

    #[inline(always)]
    pub unsafe fn vdupq_n_u8(b: u8) -> uint8x16_t {
        uint8x16_t([b; 16])
    }

    #[inline(always)]
    pub unsafe fn vld1q_u8(p: *const u8) -> uint8x16_t {
        super::monitor(p, 16);
        uint8x16_t(p.cast::<[u8; 16]>().read_unaligned())
    }

    #[inline(always)]
    pub unsafe fn vceqq_u8(a: uint8x16_t, b: uint8x16_t) -> uint8x16_t {
        let mut o = [0u8; 16];
        for i in 0..16 {
            o[i] = if a.0[i] == b.0[i] { 0xFF } else { 0 };
        }
        uint8x16_t(o)
    }

    #[inline(always)]
    pub unsafe fn vandq_u8(a: uint8x16_t, b: uint8x16_t) -> uint8x16_t {
        let mut o = [0u8; 16];
        for i in 0..16 {
            o[i] = a.0[i] & b.0[i];
        }
        uint8x16_t(o)
    }

    #[inline(always)]
    pub unsafe fn vorrq_u8(a: uint8x16_t, b: uint8x16_t) -> uint8x16_t {
        let mut o = [0u8; 16];
        for i in 0..16 {
            o[i] = a.0[i] | b.0[i];
        }
        uint8x16_t(o)
    }

    /// Little-endian reinterpretation: u16 lane i = bytes 2i (low), 2i+1 (high).
    #[inline(always)]
    pub unsafe fn vreinterpretq_u16_u8(a: uint8x16_t) -> uint16x8_t {
        let mut o = [0u16; 8];
        for i in 0..8 {
            o[i] = u16::from(a.0[2 * i]) | (u16::from(a.0[2 * i + 1]) << 8);
        }
        uint16x8_t(o)
    }

    /// SHRN: each 16-bit lane shifted right by `n` (1..=8) and truncated to
    /// its low 8 bits.
    #[inline(always)]
    pub unsafe fn vshrn_n_u16(a: uint16x8_t, n: i32) -> uint8x8_t {
        assert!((1..=8).contains(&n), "vshrn_n_u16 immediate out of range");
        let mut o = [0u8; 8];
        for i in 0..8 {
            o[i] = (a.0[i] >> n) as u8;
        }
        uint8x8_t(o)
    }

    #[inline(always)]
    pub unsafe fn vreinterpret_u64_u8(a: uint8x8_t) -> uint64x1_t {
        uint64x1_t(u64::from_le_bytes(a.0))
    }

    #[inline(always)]
    pub unsafe fn vget_lane_u64(a: uint64x1_t, lane: i32) -> u64 {
        assert_eq!(lane, 0, "vget_lane_u64 lane out of range");
        a.0
    }

    /// UMAXP: pairwise maximum of adjacent lanes of the concatenation a:b.
    #[inline(always)]
    pub unsafe fn vpmaxq_u8(a: uint8x16_t, b: uint8x16_t) -> uint8x16_t {
        let mut o = [0u8; 16];
        for i in 0..8 {
            o[i] = a.0[2 * i].max(a.0[2 * i + 1]);
            o[8 + i] = b.0[2 * i].max(b.0[2 * i + 1]);
        }
        uint8x16_t(o)
    }

    #[inline(always)]
    pub unsafe fn vreinterpretq_u64_u8(a: uint8x16_t) -> uint64x2_t {
        let mut lo = [0u8; 8];
        let mut hi = [0u8; 8];
        lo.copy_from_slice(&a.0[..8]);
        hi.copy_from_slice(&a.0[8..]);
        uint64x2_t([u64::from_le_bytes(lo), u64::from_le_bytes(hi)])
    }

    #[inline(always)]
    pub unsafe fn vgetq_lane_u64(a: uint64x2_t, lane: i32) -> u64 {
        assert!(lane == 0 || lane == 1, "vgetq_lane_u64 lane out of range");
        a.0[lane as usize]
    }
}

pub mod wasm32 {
    /// 16-byte aligned like the real `v128`, so that dereferencing a
    /// misaligned `*const v128` (the crate's `load_aligned`) trips rustc's
    /// pointer-alignment check in builds with debug assertions.
    #[derive(Clone, Copy, Debug)]
    #[repr(C, align(16))]
    pub struct v128(pub [u8; 16]);

    #[inline(always)]
    pub fn u8x16_splat(b: u8) -> v128 {
        v128([b; 16])
    }

    #[inline(always)]
    pub unsafe fn v128_load(m: *const v128) -> v128 {
        super::monitor(m.cast::<u8>(), 16);
        v128(m.cast::<[u8; 16]>().read_unaligned())
    }

    #[inline(always)]
    pub fn u8x16_eq(a: v128, b: v128) -> v128 {
        let mut o = [0u8; 16];
        for i in 0..16 {
            o[i] = if a.0[i] == b.0[i] { 0xFF } else { 0 };
        }
        v128(o)
    }

    #[inline(always)]
    pub fn v128_and(a: v128, b: v128) -> v128 {
        let mut o = [0u8; 16];
        for i in 0..16 {
            o[i] = a.0[i] & b.0[i];
        }
        v128(o)
    }

    #[inline(always)]
    pub fn v128_or(a: v128, b: v128) -> v128 {
        let mut o = [0u8; 16];
        for i in 0..16 {
            o[i] = a.0[i] | b.0[i];
        }
        v128(o)
    }

    /// i8x16.bitmask: bit i = most significant bit of lane i.
    #[inline(always)]
    pub fn u8x16_bitmask(a: v128) -> u16 {
        let mut m = 0u16;
        for i in 0..16 {
            m |= u16::from(a.0[i] >> 7) << i;
        }
        m
    }
}
