//! Engine T (C15): every interleaving of threads calling through the real
//! runtime-dispatch cells (`unsafe_ifunc!`, built with loom's AtomicPtr via
//! hook H4), under loom's C11 memory model. loom re-creates the lazy_static
//! cells for every execution, so every execution starts in the "first call
//! in the process" state.

use std::sync::atomic::{AtomicU64, Ordering};
use std::sync::{Arc, Mutex};

use mcore::{Args, Report, Violation};
use serde_json::json;

#[derive(Clone, Copy, Debug, PartialEq, Eq)]
enum Op {
    Memchr,
    Memrchr,
    Memchr2,
    Memrchr2,
    Memchr3,
    Memrchr3,
    Count,
}

const OPS: [Op; 7] = [Op::Memchr, Op::Memrchr, Op::Memchr2, Op::Memrchr2, Op::Memchr3, Op::Memrchr3, Op::Count];

/// Per-thread haystacks: short (<16, scalar route), medium (<32, SSE2 route
/// inside AVX2) and long (>=128, unrolled AVX2 loop).
fn haystack(thread: usize, call: usize) -> &'static [u8] {
    const H: [&[u8]; 6] = [
        b"..a.b..c",
        b"................a.......b...",
        b"................................................................................................................................a......b.....c",
        b"c.b.a",
        b"..........b........c.....",
        b"a...............................................................................................................................................",
    ];
    H[(thread * 2 + call) % H.len()]
}

fn run_op(op: Op, h: &[u8]) -> Option<usize> {
    match op {
        Op::Memchr => memchr::memchr(b'a', h),
        Op::Memrchr => memchr::memrchr(b'a', h),
        Op::Memchr2 => memchr::memchr2(b'a', b'b', h),
        Op::Memrchr2 => memchr::memrchr2(b'a', b'b', h),
        Op::Memchr3 => memchr::memchr3(b'a', b'b', b'c', h),
        Op::Memrchr3 => memchr::memrchr3(b'a', b'b', b'c', h),
        Op::Count => Some(memchr::memchr_iter(b'.', h).count()),
    }
}

fn reference(op: Op, h: &[u8]) -> Option<usize> {
    let is = |set: &[u8], b: u8| set.contains(&b);
    match op {
        Op::Memchr => h.iter().position(|&b| is(b"a", b)),
        Op::Memrchr => h.iter().rposition(|&b| is(b"a", b)),
        Op::Memchr2 => h.iter().position(|&b| is(b"ab", b)),
        Op::Memrchr2 => h.iter().rposition(|&b| is(b"ab", b)),
        Op::Memchr3 => h.iter().position(|&b| is(b"abc", b)),
        Op::Memrchr3 => h.iter().rposition(|&b| is(b"abc", b)),
        Op::Count => Some(h.iter().filter(|&&b| b == b'.').count()),
    }
}

struct Outcome {
    executions: u64,
    detect_hist: [u64; 8],
    mismatches: Vec<String>,
}

/// Wall budget of ONE loom model (a program), set from the tier. On the
/// unchanged tree every program finishes in milliseconds to seconds; a change
/// that puts atomics on a search's hot path can make the interleaving space
/// astronomically large - then loom stops at the budget and the run is
/// reported as capped (not exhaustive), never as a verdict.
static MODEL_BUDGET_S: AtomicU64 = AtomicU64::new(20);
static CAPPED: Mutex<Vec<String>> = Mutex::new(Vec::new());

fn budget() -> std::time::Duration {
    std::time::Duration::from_secs(MODEL_BUDGET_S.load(Ordering::Relaxed))
}

fn note_cap(t0: std::time::Instant, what: &str) {
    if t0.elapsed() >= budget() {
        CAPPED.lock().unwrap().push(format!("loom model '{}' stopped at its {} s wall budget", what, budget().as_secs()));
    }
}

/// Explores every interleaving (up to `bound` preemptions; None = unbounded)
/// of the given per-thread programs.
fn explore(programs: &[Vec<Op>], bound: Option<usize>) -> Outcome {
    let executions = Arc::new(AtomicU64::new(0));
    let hist: Arc<Vec<AtomicU64>> = Arc::new((0..8).map(|_| AtomicU64::new(0)).collect());
    let mismatches: Arc<Mutex<Vec<String>>> = Arc::new(Mutex::new(vec![]));
    let mut b = loom::model::Builder::new();
    b.preemption_bound = bound;
    b.max_branches = 100_000;
    b.max_duration = Some(budget());
    let t0_model = std::time::Instant::now();
    let programs: Arc<Vec<Vec<Op>>> = Arc::new(programs.to_vec());
    let (e2, h2, m2, p2) = (executions.clone(), hist.clone(), mismatches.clone(), programs.clone());
    b.check(move || {
        memchr::verif::VERIF_DETECT_RUNS.store(0, Ordering::Relaxed);
        let mut handles = vec![];
        for (ti, prog) in p2.iter().enumerate() {
            let prog = prog.clone();
            let m3 = m2.clone();
            handles.push(loom::thread::spawn(move || {
                for (ci, &op) in prog.iter().enumerate() {
                    let h = haystack(ti, ci);
                    let got = run_op(op, h);
                    let exp = reference(op, h);
                    if got != exp {
                        let mut m = m3.lock().unwrap();
                        if m.len() < 16 {
                            m.push(format!("thread {} call {} {:?} on {:?}-byte haystack returned {:?}, sequential reference {:?}", ti, ci, op, h.len(), got, exp));
                        }
                    }
                }
            }));
        }
        for h in handles {
            h.join().unwrap();
        }
        e2.fetch_add(1, Ordering::Relaxed);
        let d = memchr::verif::VERIF_DETECT_RUNS.load(Ordering::Relaxed).min(7);
        h2[d].fetch_add(1, Ordering::Relaxed);
    });
    let mut detect_hist = [0u64; 8];
    for i in 0..8 {
        detect_hist[i] = hist[i].load(Ordering::Relaxed);
    }
    note_cap(t0_model, "program");
    let m = mismatches.lock().unwrap().clone();
    Outcome { executions: executions.load(Ordering::Relaxed), detect_hist, mismatches: m }
}

/// (iii) one Finder / FinderRev / cloned iterator shared by reference or moved
/// across threads; the searcher is built inside the model, so the threads'
/// searches are the FIRST searches on it. In the plain build there is no
/// synchronisation inside a search, so loom only has thread start/finish
/// orders to vary; in the loom-rewritten copy of the crate (every atomic /
/// std::sync primitive resolves to loom) any synchronisation a change adds
/// to a searcher is explored too.
fn explore_shared(threads: usize, long_needle: bool, bound: Option<usize>) -> Outcome {
    use memchr::memmem;
    let executions = Arc::new(AtomicU64::new(0));
    let mismatches: Arc<Mutex<Vec<String>>> = Arc::new(Mutex::new(vec![]));
    let (e2, m2) = (executions.clone(), mismatches.clone());
    let mut b = loom::model::Builder::new();
    b.preemption_bound = bound;
    b.max_branches = 100_000;
    b.max_duration = Some(budget());
    let t0_model = std::time::Instant::now();
    b.check(move || {
        let needle: &'static [u8] = if long_needle { b"zqe e e e e e e e e e e e e e e e e e e e" } else { b"zq" };
        let finder = Arc::new(memmem::Finder::new(needle));
        let finder_rev = Arc::new(memmem::FinderRev::new(needle));
        // per-thread haystacks: short ones (Rabin-Karp routes: < 16 bytes /
        // below the vector minimum) and a long one
        let shorts: [&'static [u8]; 3] = [b"dkrzqpwgnuel", b"..zq", b"zq.zq.........."];
        let long: &'static [u8] = Box::leak(
            [b"e e e z".as_slice(), needle, b" q e e ", needle, b"....".as_slice()].concat().into_boxed_slice(),
        );
        let base_iter = memchr::memchr_iter(b'e', long);
        let sub_iter = finder.find_iter(long).into_owned();
        let exp_cnt = long.iter().filter(|&&b| b == b'e').count();
        let naive = move |h: &[u8]| h.windows(needle.len()).position(|w| w == needle);
        let rnaive = move |h: &[u8]| h.windows(needle.len()).rposition(|w| w == needle);
        let mut hs = vec![];
        for t in 0..threads {
            let (f, fr, m3) = (finder.clone(), finder_rev.clone(), m2.clone());
            let it = base_iter.clone();
            let si = sub_iter.clone();
            hs.push(loom::thread::spawn(move || {
                let mut bad = vec![];
                let h: &[u8] = if long_needle { long } else { shorts[t % 3] };
                let got = f.find(h);
                if got != naive(h) {
                    bad.push(format!("thread {}: first find on a shared Finder returned {:?}, expected {:?}", t, got, naive(h)));
                }
                let got = f.find(long);
                if got != naive(long) {
                    bad.push(format!("thread {}: find(long) on a shared Finder returned {:?}, expected {:?}", t, got, naive(long)));
                }
                let got = fr.rfind(h);
                if got != rnaive(h) {
                    bad.push(format!("thread {}: rfind on a shared FinderRev returned {:?}, expected {:?}", t, got, rnaive(h)));
                }
                if it.count() != exp_cnt {
                    bad.push(format!("thread {}: moved Memchr clone miscounted", t));
                }
                let got: Vec<usize> = si.collect();
                if got.first().copied() != naive(long) || got.len() != 2 {
                    bad.push(format!("thread {}: moved FindIter yielded {:?}", t, got));
                }
                if !bad.is_empty() {
                    m3.lock().unwrap().extend(bad);
                }
            }));
        }
        for h in hs {
            h.join().unwrap();
        }
        e2.fetch_add(1, Ordering::Relaxed);
    });
    note_cap(t0_model, "program");
    let m = mismatches.lock().unwrap().clone();
    Outcome { executions: executions.load(Ordering::Relaxed), detect_hist: [0; 8], mismatches: m }
}

/// (iv) the free functions memmem::find / rfind called concurrently with
/// different needles (and repeatedly with the same one): any process-wide
/// state behind them (a memo of the last searcher, statistics, ...) is shared
/// by these calls.
fn explore_free_functions(programs: &[Vec<usize>], bound: Option<usize>) -> Outcome {
    use memchr::memmem;
    const NEEDLES: [&[u8]; 3] = [b"needle-A", b"NEEDLE.b", b"zq"];
    let executions = Arc::new(AtomicU64::new(0));
    let mismatches: Arc<Mutex<Vec<String>>> = Arc::new(Mutex::new(vec![]));
    let (e2, m2) = (executions.clone(), mismatches.clone());
    let programs: Arc<Vec<Vec<usize>>> = Arc::new(programs.to_vec());
    let mut b = loom::model::Builder::new();
    b.preemption_bound = bound;
    b.max_branches = 200_000;
    b.max_duration = Some(budget());
    let t0_model = std::time::Instant::now();
    b.check(move || {
        let mut hs = vec![];
        for (t, prog) in programs.iter().enumerate() {
            let prog = prog.clone();
            let m3 = m2.clone();
            hs.push(loom::thread::spawn(move || {
                for (ci, &ni) in prog.iter().enumerate() {
                    let needle = NEEDLES[ni];
                    // per-thread haystack of >= 64 bytes holding every needle
                    // at thread-specific offsets
                    let mut h: Vec<u8> = vec![b'.'; 70 + 3 * t + ci];
                    h.extend_from_slice(NEEDLES[(ni + 1) % 3]);
                    h.extend_from_slice(b"....");
                    h.extend_from_slice(needle);
                    h.extend_from_slice(b"..");
                    h.extend_from_slice(NEEDLES[(ni + 2) % 3]);
                    let exp = h.windows(needle.len()).position(|w| w == needle);
                    let rexp = h.windows(needle.len()).rposition(|w| w == needle);
                    let got = memmem::find(&h, needle);
                    let rgot = memmem::rfind(&h, needle);
                    if got != exp || rgot != rexp {
                        let mut m = m3.lock().unwrap();
                        if m.len() < 8 {
                            m.push(format!("thread {} call {}: memmem::find/rfind for needle #{} returned {:?}/{:?}, sequential reference {:?}/{:?}", t, ci, ni, got, rgot, exp, rexp));
                        }
                    }
                }
            }));
        }
        for h in hs {
            h.join().unwrap();
        }
        e2.fetch_add(1, Ordering::Relaxed);
    });
    note_cap(t0_model, "program");
    let m = mismatches.lock().unwrap().clone();
    Outcome { executions: executions.load(Ordering::Relaxed), detect_hist: [0; 8], mismatches: m }
}

fn main() {
    let args = Args::parse();
    let out = args.str("out", "-");
    let thorough = args.str("tier", "quick") == "thorough";
    let t0 = std::time::Instant::now();
    MODEL_BUDGET_S.store(args.num("model-budget", if thorough { 180 } else { 20 }), Ordering::Relaxed);
    let mut total = Report::default();
    // program families
    let mut families: Vec<(String, Vec<Vec<Op>>, Option<usize>)> = vec![];
    // (i) two threads x two calls, unbounded preemptions: both first calls
    // collide on the same cell, second calls hit the other thread's cell
    for &a in &OPS {
        families.push((format!("2x2 same-cell {:?}", a), vec![vec![a, a], vec![a, a]], None));
    }
    let pairs: Vec<(Op, Op)> = if thorough {
        OPS.iter().flat_map(|&a| OPS.iter().map(move |&b| (a, b))).filter(|(a, b)| a != b).collect()
    } else {
        (0..7).map(|i| (OPS[i], OPS[(i + 1) % 7])).chain((0..7).map(|i| (OPS[i], OPS[(i + 3) % 7]))).collect()
    };
    for &(a, b) in &pairs {
        families.push((format!("2x2 cross {:?}/{:?}", a, b), vec![vec![a, b], vec![b, a]], None));
        families.push((format!("2x2 same-first {:?} then {:?}", a, b), vec![vec![a, b], vec![a, b]], None));
    }
    // (ii) three threads, preemption bound 3
    for i in 0..7 {
        let (a, b) = (OPS[i], OPS[(i + 2) % 7]);
        families.push((format!("3 threads same-cell {:?}", a), vec![vec![a], vec![a], vec![a, a]], Some(3)));
        families.push((format!("3 threads mixed {:?}/{:?}", a, b), vec![vec![a, b], vec![b], vec![a]], Some(3)));
    }
    if thorough {
        for i in 0..7 {
            let (a, b, c) = (OPS[i], OPS[(i + 1) % 7], OPS[(i + 4) % 7]);
            families.push((format!("3x2 {:?}/{:?}/{:?}", a, b, c), vec![vec![a, b], vec![b, c], vec![c, a]], Some(3)));
            // deeper: three first calls on one cell with NO preemption bound,
            // four threads, three calls per thread, and a higher bound
            families.push((format!("3x1 same-cell {:?} (unbounded)", a), vec![vec![a], vec![a], vec![a]], None));
            families.push((format!("4x1 same-cell {:?}", a), vec![vec![a], vec![a], vec![a], vec![a]], Some(3)));
            families.push((format!("2x3 {:?}/{:?} (unbounded)", a, b), vec![vec![a, b, a], vec![b, a, b]], None));
            families.push((format!("3x2 same-cell {:?} (bound 4)", a), vec![vec![a, a], vec![a, a], vec![a, b]], Some(4)));
        }
    }
    let only = args.get("family").map(|s| s.to_string());
    let mut detect_total = [0u64; 8];
    let mut raced_total = 0u64;
    for (name, progs, bound) in &families {
        if let Some(o) = &only {
            if o != name {
                continue;
            }
        }
        let o = explore(progs, *bound);
        total.states += 1;
        total.evaluations += o.executions;
        // distinct dispatch cells the program touches: detection must run at
        // least once per cell; more runs than cells means two threads raced
        // through the same cell's first call
        let mut cells: Vec<Op> = progs.iter().flatten().copied().collect();
        cells.sort_by_key(|o| *o as usize);
        cells.dedup();
        let raced: u64 = (cells.len() + 1..8).map(|i| o.detect_hist[i]).sum();
        total.nontrivial += raced;
        raced_total += raced;
        for i in 0..8 {
            detect_total[i] += o.detect_hist[i];
        }
        total.bump_by(&format!("interleavings/{} threads ({})", progs.len(), match bound { Some(b) => format!("preemption bound {}", b), None => "unbounded".to_string() }), o.executions);
        total.sample(total.states, || json!({"program": name, "threads": progs.iter().map(|p| p.iter().map(|o| format!("{:?}", o)).collect::<Vec<_>>()).collect::<Vec<_>>(), "preemption_bound": bound, "interleavings": o.executions, "detect_runs_histogram": o.detect_hist}));
        for m in o.mismatches {
            total.violation(Violation {
                class: "wrong_result".into(),
                key: total.states,
                what: format!("[wrong_result] loom program '{}': {}", name, m),
                replay_argv: vec!["--family".into(), name.clone()],
                detail: json!({"class": "wrong_result", "program": name}),
            });
        }
    }
    for i in 0..8 {
        total.bump_by(&format!("executions in which detect ran {} time(s)", i), detect_total[i]);
    }
    total.bump_by("executions in which two threads raced through the same cell's detect", raced_total);
    if only.is_none() && raced_total == 0 {
        total.machinery_errors.push("vacuous: no explored execution had two threads racing through detect".into());
    }
    if only.is_none() {
        for (t, long_needle, bound) in [(2usize, false, None), (2, true, None), (3, false, Some(2)), (3, true, Some(2))] {
            let o = explore_shared(t, long_needle, bound);
            total.evaluations += o.executions;
            total.states += 1;
            total.bump_by(
                if cfg!(memchr_verif_loomcopy) {
                    "interleavings/shared finder+iterators (all atomics of the crate loom-visible)"
                } else {
                    "interleavings/shared finder+iterators (thread start/finish orders only)"
                },
                o.executions,
            );
            for m in o.mismatches {
                total.violation(Violation {
                    class: "wrong_result".into(),
                    key: 1000,
                    what: format!("[wrong_result] shared searcher: {}", m),
                    replay_argv: vec![],
                    detail: json!({"class": "wrong_result"}),
                });
            }
        }
    }
    if only.is_none() {
        let progs: Vec<(Vec<Vec<usize>>, Option<usize>)> = vec![
            (vec![vec![0, 0], vec![1]], None),
            (vec![vec![0, 0], vec![1, 1]], None),
            (vec![vec![0, 1], vec![1, 0]], None),
            (vec![vec![0, 0], vec![0, 0]], None),
            (vec![vec![0, 0], vec![1], vec![2]], Some(2)),
        ];
        for (p, bound) in &progs {
            let o = explore_free_functions(p, *bound);
            total.evaluations += o.executions;
            total.states += 1;
            total.bump_by("interleavings/memmem::find+rfind with per-thread needles", o.executions);
            for m in o.mismatches {
                total.violation(Violation {
                    class: "wrong_result".into(),
                    key: 2000,
                    what: format!("[wrong_result] concurrent free functions, program {:?}: {}", p, m),
                    replay_argv: vec![],
                    detail: json!({"class": "wrong_result", "program": format!("{:?}", p)}),
                });
            }
        }
    }
    let extra = json!({
        "engine": if cfg!(memchr_verif_loomcopy) { "loomcheck (loom 0.7.2; every atomic/std::sync primitive of a scratch copy of the crate rewritten to loom)" } else { "loomcheck (loom 0.7.2 on the real unsafe_ifunc! cells)" }, "tier": if thorough { "thorough" } else { "quick" },
        "bounds": {"programs": families.len(), "two_thread_programs": "unbounded preemptions", "three_thread_programs": "preemption bound 3 (thorough: also 3x1 unbounded and 3x2 at bound 4)", "four_thread_programs": "thorough: preemption bound 3"},
        "nontrivial_rule": "an execution is non-trivial when CPU detection ran more often than the number of distinct dispatch cells the program touches, i.e. two threads raced through the same cell's first call",
        "exhaustive": CAPPED.lock().unwrap().is_empty(),
        "wall_s": t0.elapsed().as_secs_f64(),
    });
    total.caps_hit.extend(CAPPED.lock().unwrap().drain(..));
    total.write(&out, "loomcheck", extra);
    eprintln!("loomcheck: {} programs, {} interleavings, {} violations, {:.1}s", total.states, total.evaluations, total.violation_count, t0.elapsed().as_secs_f64());
    if only.is_some() {
        std::process::exit(if total.violation_count > 0 { 1 } else { 0 });
    }
}
